#!/venv/bin/python
"""Run the repository's pinned suite (hooks off) and compare with BASELINE.json.

usage: tools/baseline.py [repo_root]
exit 0 iff every test in BASELINE.stable_pass passed.
"""
import json, os, signal, subprocess, sys, tempfile
import xml.etree.ElementTree as ET

def main():
    repo = sys.argv[1] if len(sys.argv) > 1 else "/repo"
    base = json.load(open("/root/.vp/BASELINE.json"))
    want = set(base["stable_pass"])
    fd, path = tempfile.mkstemp(suffix=".xml"); os.close(fd)
    env = dict(os.environ); env.pop("TESTTOOLS_VERIF", None)
    try:
        # TVM_SUITE_WALL: overall wall-clock limit (mutation runs: a mutant that hangs the suite is a failing suite)
        wall = os.environ.get("TVM_SUITE_WALL") or ("240" if os.environ.get("TVM_PYTEST_TIMEOUT") else None)
        proc = subprocess.Popen(["/venv/bin/python", "-m", "pytest", "-q", "-p", "no:cacheprovider",
                                 "--timeout=" + os.environ.get("TVM_PYTEST_TIMEOUT", "900"),
                                 "--continue-on-collection-errors", "--junitxml=" + path], cwd=repo, env=env,
                                stdout=subprocess.DEVNULL, stderr=subprocess.DEVNULL, start_new_session=True,
                                preexec_fn=lambda: signal.signal(signal.SIGINT, signal.SIG_DFL))
        try:
            proc.wait(timeout=float(wall) if wall else None)
        except subprocess.TimeoutExpired:
            os.killpg(proc.pid, signal.SIGKILL)
            proc.wait()
            print("baseline: suite did not finish within %s s" % wall)
            return 1
        passed = set()
        for tc in ET.parse(path).getroot().iter("testcase"):
            if not any(c.tag in ("failure", "error", "skipped") for c in tc):
                passed.add(tc.get("classname") + "::" + tc.get("name"))
    finally:
        os.unlink(path)
    missing = sorted(want - passed)
    print("baseline: %d/%d stable tests pass" % (len(want) - len(missing), len(want)))
    for m in missing[:40]:
        print("  NOT PASSING:", m)
    return 1 if missing else 0

if __name__ == "__main__":
    sys.exit(main())
