#!/venv/bin/python
"""Confirm a sub-agent's seeded change and file it under /verif/seeded/<id>/.

usage: tools/confirm_seed.py /tmp/wt/out/C01/a [...]

For each directory (patch.diff, demo.py, notes.md) this creates a scratch worktree of /repo
HEAD under /tmp, and checks that
  1. demo.py exits 0 on the unchanged tree,
  2. the patch applies, and the repository's own suite still passes every BASELINE stable test,
  3. demo.py exits non-zero with the patch applied.
Only then is it copied to /verif/seeded/<prop>-<k>/ with a meta.json.
"""
import json
import os
import shutil
import subprocess
import sys
import tempfile

ROOT = os.path.dirname(os.path.dirname(os.path.abspath(__file__)))


def sh(cmd, **kw):
    # background shells start children with SIGINT ignored; demos that send a real SIGINT need the default
    import signal
    return subprocess.run(cmd, shell=True, capture_output=True, text=True,
                          preexec_fn=lambda: signal.signal(signal.SIGINT, signal.SIG_DFL), **kw)


def confirm(src):
    src = os.path.abspath(src)
    prop = os.path.basename(os.path.dirname(src))
    k = os.path.basename(src)
    sid = f"{prop}-{k}"
    wt = tempfile.mkdtemp(prefix="tvm-confirm-")
    os.rmdir(wt)
    res = {"id": sid, "property": prop}
    try:
        r = sh(f"git -C /repo worktree add -q --detach {wt} HEAD")
        if r.returncode:
            return sid, False, "worktree: " + r.stderr
        head = sh("git -C /repo rev-parse HEAD").stdout.strip()
        d0 = sh(f"/venv/bin/python {src}/demo.py {wt}", cwd="/tmp", timeout=600)
        res["demo_unchanged_rc"] = d0.returncode
        if d0.returncode != 0:
            return sid, False, f"demo fails on unchanged tree: {d0.stdout[-300:]}{d0.stderr[-300:]}"
        a = sh(f"git -C {wt} apply {src}/patch.diff")
        if a.returncode:
            return sid, False, "patch does not apply: " + a.stderr
        b = sh(f"/venv/bin/python {ROOT}/tools/baseline.py {wt}", timeout=900)
        if b.returncode != 0:
            b = sh(f"/venv/bin/python {ROOT}/tools/baseline.py {wt}", timeout=900)  # flaky spinner tests
        res["suite"] = b.stdout.strip().splitlines()[0] if b.stdout else ""
        if b.returncode != 0:
            return sid, False, "suite fails with the change: " + b.stdout[-400:]
        d1 = sh(f"/venv/bin/python {src}/demo.py {wt}", cwd="/tmp", timeout=600)
        res["demo_changed_rc"] = d1.returncode
        if d1.returncode == 0:
            return sid, False, "demo passes with the change"
        res["demo_changed_tail"] = (d1.stdout + d1.stderr)[-300:]
        dst = os.path.join(ROOT, "seeded", sid)
        os.makedirs(dst, exist_ok=True)
        for f in ("patch.diff", "demo.py", "notes.md"):
            if os.path.exists(os.path.join(src, f)):
                shutil.copy(os.path.join(src, f), os.path.join(dst, f))
        notes = open(os.path.join(src, "notes.md")).read() if os.path.exists(os.path.join(src, "notes.md")) else ""
        meta = {
            "id": sid,
            "breaks_property": prop,
            "origin": "independent sub-agent given only the property text and a scratch worktree",
            "base_commit": head,
            "needs_to_manifest": notes.strip().splitlines()[:12],
            "confirmed_by": {
                "demo_on_unchanged_tree_rc": res["demo_unchanged_rc"],
                "demo_with_change_rc": res["demo_changed_rc"],
                "repository_suite_with_change": res["suite"],
                "commands": [
                    "git -C /repo worktree add --detach <scratch> HEAD",
                    "python demo.py <scratch>   # 0",
                    "git -C <scratch> apply patch.diff",
                    "tools/baseline.py <scratch> # all BASELINE stable tests pass",
                    "python demo.py <scratch>   # non-zero",
                ],
            },
        }
        with open(os.path.join(dst, "meta.json"), "w") as f:
            json.dump(meta, f, indent=1)
            f.write("\n")
        return sid, True, res["suite"]
    finally:
        sh(f"git -C /repo worktree remove --force {wt}")
        shutil.rmtree(wt, ignore_errors=True)


if __name__ == "__main__":
    ok = True
    for d in sys.argv[1:]:
        sid, good, msg = confirm(d)
        print(("CONFIRMED " if good else "REJECTED  ") + sid + ": " + msg, flush=True)
        ok = ok and good
    sys.exit(0 if ok else 1)
