#!/venv/bin/python
"""Regenerate /verif/MANIFEST.json from the checks that exist under tvm/checks.

Per-property texts live in tools/manifest_meta.json so that the manifest can
never name a check that is not there.
"""
import json
import os
import subprocess

ROOT = os.path.dirname(os.path.dirname(os.path.abspath(__file__)))
meta = json.load(open(os.path.join(ROOT, "tools", "manifest_meta.json")))
props = [json.loads(l) for l in open(os.path.join(ROOT, "properties.jsonl"))]

def hook_commits():
    out = subprocess.run(["git", "-C", "/repo", "log", "--format=%H %s"], capture_output=True, text=True).stdout
    return [l.split()[0] for l in out.splitlines() if l.split(" ", 1)[1].startswith("verif-hook:")]

checks, na = [], []
for p in props:
    pid = p["id"]
    path = os.path.join(ROOT, "tvm", "checks", pid.lower() + ".py")
    m = meta.get(pid)
    if os.path.exists(path) and m and m.get("enabled", True):
        checks.append({
            "property_id": pid,
            "quick_cmd": f"/venv/bin/python -m tvm check {pid} --tier quick",
            "thorough_cmd": f"/venv/bin/python -m tvm check {pid} --tier thorough",
            "evidence_file": f"/verif/evidence/{pid}.json",
            "replay_cmd_template": f"/venv/bin/python -m tvm check {pid} --replay {{path}}",
            "engine": "tvm",
            "level_claimed": {"category": m["level"], "text": m["text"], "design_ref": m["design_ref"]},
            "level_note": m["note"],
            "technique": m["technique"],
        })
    else:
        na.append({"property_id": pid, "reason": (m or {}).get(
            "na_reason", "runtime monitor for this property is not built yet; no claim is made")})

manifest = {
    "version": 1,
    "setup_cmd": "/venv/bin/python -m tvm setup",
    "hooks": {
        "guard": "TESTTOOLS_VERIF",
        "enable": "no source hooks are needed: every observation point is reached from the harness "
                  "(result doubles passed by the caller, module globals of testtools.testsuite rebound "
                  "for one execution, sys.monitoring for line-level yield points); the checks export "
                  "TESTTOOLS_VERIF=1 for uniformity but the repository does not read it",
        "baseline_off_cmd": "cd /repo && env -u TESTTOOLS_VERIF /venv/bin/python -m pytest -ra -q "
                            "-p no:cacheprovider --timeout=900 --continue-on-collection-errors",
        "source_commits": hook_commits(),
        "add_only": True,
    },
    "engines": [{
        "name": "tvm",
        "path": "/verif/tvm",
        "serves_properties": [c["property_id"] for c in checks],
        "kind_free_text": "runtime monitors (pure Python, stdlib only): generated / enumerated workloads "
                          "and fault injection drive the real testtools code of /repo's working tree; "
                          "recording result doubles, reference-model oracles, a deterministic baton "
                          "scheduler and a virtual-time reactor observe the executions",
    }],
    "checks": checks,
    "not_applicable": na,
    "notes": "Every check is `python -m tvm check <id>`; exit 0 held / 1 VIOLATION / 2 INCONCLUSIVE "
             "(deciding monitor not reached, harness error or watchdog).  VERIF_SEED seeds all random "
             "choices.  known_findings.json lists recorded and repaired defects; seeded/ holds the "
             "independently produced property-breaking changes used to validate the monitors.",
}
with open(os.path.join(ROOT, "MANIFEST.json"), "w") as f:
    json.dump(manifest, f, indent=1)
    f.write("\n")
print("checks:", [c["property_id"] for c in checks])
print("not_applicable:", [n["property_id"] for n in na])
