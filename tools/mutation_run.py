#!/venv/bin/python
"""Systematic syntactic mutation of the code each property is anchored in.

For every property: the functions / methods that the anchors' line ranges (given against the pinned
commit) fall into are located in the CURRENT tree; small syntactic mutants are generated inside them
(comparison / boolean operator swaps, negated conditions, constants nudged, `if` forced, a statement
dropped, return value dropped, break/continue swapped, +/- swapped).  Each mutant is applied to a scratch
worktree of /repo HEAD (never to /repo); mutants the repository's own suite kills are discarded; the
property's quick check is run against the survivors.  Result: mutation/RESULTS.json and
mutation/RESULTS.md (per property: generated, killed by the suite, caught by the check, not caught).
The "not caught" ones are listed with their diff for triage (equivalent mutant / outside the property /
a reach gap).

usage: tools/mutation_run.py [--props C01,C02] [--per-prop 120] [--jobs 12] [--seed 0]
"""
import argparse
import ast
import concurrent.futures
import copy
import difflib
import hashlib
import json
import os
import random
import re
import shutil
import subprocess
import tempfile
import threading

ROOT = os.path.dirname(os.path.dirname(os.path.abspath(__file__)))


RES_NAME = "RESULTS"


def sh(cmd, **kw):
    return subprocess.run(cmd, shell=True, capture_output=True, text=True, **kw)


def pinned_commit():
    log = sh("git -C /repo log --reverse --format='%H %s'").stdout.splitlines()
    for line in log:
        h, _, subj = line.partition(" ")
        if subj.startswith("fix:"):
            return sh("git -C /repo rev-parse %s^" % h).stdout.strip()
    return sh("git -C /repo rev-parse HEAD").stdout.strip()


def qualnames_in_range(src, ranges):
    """Qualified names of the innermost functions (or classes, for class-level lines) hit by the ranges."""
    tree = ast.parse(src)
    out = set()

    def walk(node, prefix):
        for ch in ast.iter_child_nodes(node):
            if isinstance(ch, (ast.FunctionDef, ast.AsyncFunctionDef, ast.ClassDef)):
                q = prefix + [ch.name]
                lo, hi = ch.lineno, ch.end_lineno
                if any(a <= hi and lo <= b for a, b in ranges):
                    if isinstance(ch, ast.ClassDef):
                        walk(ch, q)
                    else:
                        out.add(".".join(q))
                        walk(ch, q)
            else:
                walk(ch, prefix)
    walk(tree, [])
    return out


def parse_where(where):
    """'testtools/a.py:1-5,7-9; testtools/b.py:3-4' -> {file: [(1,5),(7,9)], ...}"""
    out = {}
    for part in where.split(";"):
        part = part.strip()
        if not part:
            continue
        f, _, spans = part.partition(":")
        for sp in spans.split(","):
            a, _, b = sp.partition("-")
            out.setdefault(f.strip(), []).append((int(a), int(b or a)))
    return out


class Site:
    def __init__(self, kind, lineno):
        self.kind, self.lineno = kind, lineno


CMP_SWAP = {ast.Eq: ast.NotEq, ast.NotEq: ast.Eq, ast.Lt: ast.LtE, ast.LtE: ast.Lt, ast.Gt: ast.GtE,
            ast.GtE: ast.Gt, ast.Is: ast.IsNot, ast.IsNot: ast.Is, ast.In: ast.NotIn, ast.NotIn: ast.In}


OPS2 = [False]     # --ops2: the second operator set instead of the first


def sites2(func_node):
    """Second operator set: argument order, dropped keyword arguments, a parameter passed in place of another,
    `is` <-> `==`, narrowed except clauses, loops cut after the first element, augmented assignments dropped,
    a local assigned None, string constants that are compared / used as keys emptied."""
    params = [a.arg for a in func_node.args.args + func_node.args.kwonlyargs if a.arg not in ("self", "cls")] \
        if isinstance(func_node, (ast.FunctionDef, ast.AsyncFunctionDef)) else []
    out = []
    for node in ast.walk(func_node):
        if isinstance(node, ast.Call):
            plain = [a for a in node.args if not isinstance(a, ast.Starred)]
            if len(plain) >= 2 and len(plain) == len(node.args):
                out.append(("swap-args", node))
            for i, kw in enumerate(node.keywords):
                if kw.arg is not None:
                    out.append(("drop-kwarg:%d" % i, node))
            for i, a in enumerate(node.args):
                if isinstance(a, ast.Name) and a.id in params:
                    others = [p for p in params if p != a.id]
                    if others:
                        out.append(("param-for-param:%d:%s" % (i, others[(params.index(a.id)) % len(others)]), node))
        elif isinstance(node, ast.Compare) and isinstance(node.ops[0], (ast.Is, ast.IsNot, ast.Eq, ast.NotEq)):
            # (not against literals: `x is 3` draws a SyntaxWarning, which is no behavioural change to detect)
            if not isinstance(node.comparators[0], ast.Constant) and not isinstance(node.left, ast.Constant):
                out.append(("is-eq", node))
            for c in node.comparators:
                if isinstance(c, ast.Constant) and isinstance(c.value, str) and c.value:
                    out.append(("str-empty", c))
        elif isinstance(node, ast.ExceptHandler):
            if node.type is None or (isinstance(node.type, ast.Name) and node.type.id == "BaseException"):
                out.append(("except-narrow", node))
        elif isinstance(node, ast.For):
            out.append(("loop-once", node))
        elif isinstance(node, ast.AugAssign):
            out.append(("drop-augassign", node))
        elif isinstance(node, ast.Assign) and len(node.targets) == 1 and isinstance(node.targets[0], ast.Name) \
                and not (isinstance(node.value, ast.Constant) and node.value.value is None):
            out.append(("assign-none", node))
        elif isinstance(node, ast.Subscript) and isinstance(node.slice, ast.Constant) and isinstance(node.slice.value, str) \
                and node.slice.value:
            out.append(("str-empty", node.slice))
        elif isinstance(node, ast.Dict):
            for k in node.keys:
                if isinstance(k, ast.Constant) and isinstance(k.value, str) and k.value:
                    out.append(("str-empty", k))
    return out


def apply_mutation2(kind, n, mod):
    if kind == "swap-args":
        n.args[0], n.args[1] = n.args[1], n.args[0]
    elif kind.startswith("drop-kwarg:"):
        del n.keywords[int(kind.split(":")[1])]
    elif kind.startswith("param-for-param:"):
        _, i, name = kind.split(":")
        n.args[int(i)] = ast.Name(id=name, ctx=ast.Load())
    elif kind == "is-eq":
        n.ops[0] = {ast.Is: ast.Eq, ast.IsNot: ast.NotEq, ast.Eq: ast.Is, ast.NotEq: ast.IsNot}[type(n.ops[0])]()
    elif kind == "str-empty":
        n.value = ""
    elif kind == "except-narrow":
        n.type = ast.Name(id="Exception", ctx=ast.Load())
    elif kind == "loop-once":
        n.body = n.body + [ast.Break()]
    elif kind == "drop-augassign":
        return replace_stmt(mod, n, [ast.Pass()])
    elif kind == "assign-none":
        n.value = ast.Constant(None)
    return True


def mutants_of_function(mod_tree, func_node):
    """Yield (description, mutated module source) for single-site mutations inside func_node."""
    if OPS2[0]:
        sites = sites2(func_node)
        for kind, node in sites:
            node._tvm_mark = True
            m2 = copy.deepcopy(mod_tree)
            del node._tvm_mark
            target = next(n for n in ast.walk(m2) if getattr(n, "_tvm_mark", False))
            del target._tvm_mark
            if not apply_mutation2(kind, target, m2):
                continue
            ast.fix_missing_locations(m2)
            try:
                src = ast.unparse(m2)
                compile(src, "<mutant>", "exec")
            except Exception:
                continue
            yield "%s@%d" % (kind, getattr(node, "lineno", 0)), src
        return
    sites = []
    for node in ast.walk(func_node):
        if isinstance(node, ast.Compare) and type(node.ops[0]) in CMP_SWAP:
            sites.append(("cmp", node))
        elif isinstance(node, ast.BoolOp):
            sites.append(("boolop", node))
        elif isinstance(node, ast.UnaryOp) and isinstance(node.op, ast.Not):
            sites.append(("not", node))
        elif isinstance(node, ast.Constant) and isinstance(node.value, bool):
            sites.append(("bool", node))
        elif isinstance(node, ast.Constant) and isinstance(node.value, int) and not isinstance(node.value, bool):
            sites.append(("int", node))
        elif isinstance(node, (ast.If, ast.While)) and not isinstance(node.test, ast.Constant):
            sites.append(("if-true", node))
            sites.append(("if-false", node))
        elif isinstance(node, ast.Expr) and isinstance(node.value, ast.Call):
            sites.append(("drop-call", node))
        elif isinstance(node, ast.Return) and node.value is not None and not (
                isinstance(node.value, ast.Constant) and node.value.value is None):
            sites.append(("return-none", node))
        elif isinstance(node, (ast.Break, ast.Continue)):
            sites.append(("break-continue", node))
        elif isinstance(node, ast.BinOp) and isinstance(node.op, (ast.Add, ast.Sub)):
            sites.append(("addsub", node))
        elif isinstance(node, ast.Assign) and len(node.targets) == 1 and isinstance(node.targets[0], ast.Attribute):
            sites.append(("drop-assign", node))
        elif isinstance(node, ast.Raise) and node.exc is not None:
            sites.append(("drop-raise", node))
        elif isinstance(node, ast.Try) and node.finalbody:
            sites.append(("unfinally", node))
    for kind, node in sites:
        # mark the node, deep-copy the module, mutate the marked copy
        node._tvm_mark = True
        m2 = copy.deepcopy(mod_tree)
        del node._tvm_mark
        target = next(n for n in ast.walk(m2) if getattr(n, "_tvm_mark", False))
        del target._tvm_mark
        ok = apply_mutation(kind, target, m2)
        if not ok:
            continue
        ast.fix_missing_locations(m2)
        try:
            src = ast.unparse(m2)
            compile(src, "<mutant>", "exec")
        except Exception:
            continue
        yield "%s@%d" % (kind, node.lineno), src


def replace_stmt(mod, old, new_nodes):
    for parent in ast.walk(mod):
        for field in ("body", "orelse", "finalbody", "handlers"):
            lst = getattr(parent, field, None)
            if isinstance(lst, list) and any(x is old for x in lst):
                i = next(k for k, x in enumerate(lst) if x is old)
                lst[i:i + 1] = new_nodes
                return True
    return False


def apply_mutation(kind, n, mod):
    if kind == "cmp":
        n.ops[0] = CMP_SWAP[type(n.ops[0])]()
    elif kind == "boolop":
        n.op = ast.Or() if isinstance(n.op, ast.And) else ast.And()
    elif kind == "not":
        n.op = ast.UAdd()      # `not x` -> `+x` is wrong for non-numbers: replace node contents instead
        return replace_expr(mod, n, n.operand)
    elif kind == "bool":
        n.value = not n.value
    elif kind == "int":
        n.value = n.value + 1
    elif kind == "if-true":
        n.test = ast.Constant(True)
    elif kind == "if-false":
        n.test = ast.Constant(False)
    elif kind in ("drop-call", "drop-assign", "drop-raise"):
        return replace_stmt(mod, n, [ast.Pass()])
    elif kind == "return-none":
        n.value = ast.Constant(None)
    elif kind == "break-continue":
        return replace_stmt(mod, n, [ast.Continue() if isinstance(n, ast.Break) else ast.Break()])
    elif kind == "addsub":
        n.op = ast.Sub() if isinstance(n.op, ast.Add) else ast.Add()
    elif kind == "unfinally":
        # try: A finally: B   ->   A; B   (B no longer runs when A raises)
        if n.handlers or n.orelse:
            new = ast.Try(body=n.body, handlers=n.handlers, orelse=n.orelse, finalbody=[])
            return replace_stmt(mod, n, [new] + n.finalbody)
        return replace_stmt(mod, n, n.body + n.finalbody)
    return True


def replace_expr(mod, old, new):
    for parent in ast.walk(mod):
        for field, value in ast.iter_fields(parent):
            if value is old:
                setattr(parent, field, new)
                return True
            if isinstance(value, list):
                for i, x in enumerate(value):
                    if x is old:
                        value[i] = new
                        return True
    return False


def find_function(tree, qual):
    parts = qual.split(".")
    node = tree
    for p in parts:
        nxt = None
        for ch in ast.iter_child_nodes(node):
            if isinstance(ch, (ast.FunctionDef, ast.AsyncFunctionDef, ast.ClassDef)) and ch.name == p:
                nxt = ch
                break
        if nxt is None:
            return None
        node = nxt
    return node


def plan(props, per_prop, seed):
    pinned = pinned_commit()
    todo = []
    for line in open(os.path.join(ROOT, "properties.jsonl")):
        d = json.loads(line)
        pid = d["id"]
        if props and pid not in props:
            continue
        targets = {}
        for mech in d["anchors"]["mechanism"]:
            for f, ranges in parse_where(mech["where"]).items():
                src = sh("git -C /repo show %s:%s" % (pinned, f)).stdout
                if not src:
                    continue
                targets.setdefault(f, set()).update(qualnames_in_range(src, ranges))
        cands = []
        for f, quals in sorted(targets.items()):
            cur = open(os.path.join("/repo", f)).read()
            # normalise through ast so that the diff of a mutant shows only the mutation
            base_tree = ast.parse(cur)
            base_src = ast.unparse(base_tree)
            for q in sorted(quals):
                fn = find_function(base_tree, q)
                if fn is None or isinstance(fn, ast.ClassDef):
                    continue
                for desc, src in mutants_of_function(base_tree, fn):
                    diff = "".join(difflib.unified_diff(base_src.splitlines(True), src.splitlines(True), f, f, n=1))
                    cands.append({"prop": pid, "file": f, "func": q, "mutation": desc, "source": src, "diff": diff})
        rng = random.Random("%s-%d" % (pid, seed))
        rng.shuffle(cands)
        todo += cands[:per_prop]
    return todo


_local = threading.local()
_all_wts = []


def worktree():
    wt = getattr(_local, "wt", None)
    if wt is None:
        wt = tempfile.mkdtemp(prefix="tvm-mutwt-")
        os.rmdir(wt)
        r = sh("git -C /repo worktree add -q --detach %s HEAD" % wt)
        if r.returncode:
            raise RuntimeError(r.stderr)
        _local.wt = wt
        _all_wts.append(wt)
    return wt


def run_mutant(m, tier):
    wt = worktree()
    path = os.path.join(wt, m["file"])
    orig = open(path).read()
    ev = tempfile.mkdtemp(prefix="tvm-mutev-")
    try:
        open(path, "w").write(m["source"])
        b = subprocess.run(["/venv/bin/python", ROOT + "/tools/baseline.py", wt], capture_output=True, text=True,
                           env=dict(os.environ, TVM_PYTEST_TIMEOUT="60"))
        if b.returncode != 0:
            return dict(m, source=None, verdict="killed-by-suite")
        env = dict(os.environ, TVM_REPO=wt, TVM_EVIDENCE_DIR=ev, TVM_REPLAY_DIR=ev, VERIF_SEED="0")
        c = subprocess.run(["/venv/bin/python", "-m", "tvm", "check", m["prop"], "--tier", tier],
                           capture_output=True, text=True, cwd=ROOT, env=env, timeout=900)
        kinds = [ln.split("violated:")[1].strip() for ln in c.stdout.splitlines() if "] violated:" in ln][:3]
        verdict = {0: "NOT-CAUGHT", 1: "caught", 2: "inconclusive"}.get(c.returncode, "rc=%d" % c.returncode)
        return dict(m, source=None, verdict=verdict, violated="; ".join(kinds))
    except subprocess.TimeoutExpired:
        return dict(m, source=None, verdict="timeout")
    except Exception as e:
        return dict(m, source=None, verdict="harness-error: %r" % (e,))
    finally:
        open(path, "w").write(orig)
        shutil.rmtree(ev, ignore_errors=True)


def props_by_file():
    out = {}
    for line in open(os.path.join(ROOT, "properties.jsonl")):
        d = json.loads(line)
        for mech in d["anchors"]["mechanism"]:
            for f in parse_where(mech["where"]):
                out.setdefault(f, []).append(d["id"])
    return out


def cross_check(m, others):
    """A mutant the anchoring property's check let through: is it caught by the check of another property
    anchored in the same file?  (The anchors overlap: a function listed under one property often carries
    behaviour another property states.)"""
    wt = worktree()
    path = os.path.join(wt, m["file"])
    orig = open(path).read()
    ev = tempfile.mkdtemp(prefix="tvm-mutev-")
    try:
        open(path, "w").write(m["source"])
        for pid in others:
            env = dict(os.environ, TVM_REPO=wt, TVM_EVIDENCE_DIR=ev, TVM_REPLAY_DIR=ev, VERIF_SEED="0")
            try:
                c = subprocess.run(["/venv/bin/python", "-m", "tvm", "check", pid, "--tier", "quick"],
                                   capture_output=True, text=True, cwd=ROOT, env=env, timeout=900)
            except subprocess.TimeoutExpired:
                continue
            if c.returncode == 1:
                kinds = [ln.split("violated:")[1].strip() for ln in c.stdout.splitlines() if "] violated:" in ln][:2]
                return dict(m, source=None, caught_by=pid, caught_by_violated="; ".join(kinds))
        return dict(m, source=None, caught_by=None)
    finally:
        open(path, "w").write(orig)
        shutil.rmtree(ev, ignore_errors=True)


def cross_main(args):
    path = os.path.join(ROOT, "mutation", RES_NAME + ".json")
    allr = json.load(open(path))
    key = lambda r: (r["prop"], r["file"], r["func"], r["mutation"])  # noqa: E731
    want = {key(r) for r in allr if r["verdict"] in ("NOT-CAUGHT", "inconclusive") and
            ("caught_by" not in r or (args.all and not r["caught_by"]))}
    if args.props:
        want = {k for k in want if k[0] in args.props.split(",")}
    src = {key(m): m for m in plan(sorted({k[0] for k in want}), 100000, args.seed) if key(m) in want}
    pbf = props_by_file()
    print("cross-checking %d mutants" % len(src), flush=True)
    done = {}
    try:
        with concurrent.futures.ThreadPoolExecutor(args.jobs) as ex:
            # (the property's own check first: it may have been extended since the first phase)
            every = ["C%02d" % i for i in range(1, 21)] if args.all else []
            futs = [ex.submit(cross_check, m, list(dict.fromkeys([m["prop"]] + pbf.get(m["file"], []) + every)))
                    for m in src.values()]
            for i, f in enumerate(concurrent.futures.as_completed(futs)):
                r = f.result()
                done[key(r)] = r
                if i % 10 == 9:
                    print("%d/%d" % (i + 1, len(futs)), flush=True)
    finally:
        for wt in _all_wts:
            sh("git -C /repo worktree remove --force %s" % wt)
            shutil.rmtree(wt, ignore_errors=True)
    for r in allr:
        if key(r) in done:
            r["caught_by"] = done[key(r)]["caught_by"]
            r["caught_by_violated"] = done[key(r)].get("caught_by_violated", "")
            if r["caught_by"] == r["prop"]:
                r["verdict"], r["violated"] = "caught", r.pop("caught_by_violated")
                del r["caught_by"]
    json.dump(allr, open(path, "w"), indent=1)
    write_md(allr)
    print("cross-check: %d caught by another property's check, %d by none" % (
        sum(1 for r in done.values() if r["caught_by"]), sum(1 for r in done.values() if not r["caught_by"])))


def try_main(args):
    allr = json.load(open(os.path.join(ROOT, "mutation", RES_NAME + ".json")))
    r = next(x for x in allr if x["id"] == args.try_id)
    key = lambda m: (m["prop"], m["file"], m["func"], m["mutation"])  # noqa: E731
    m = next(m for m in plan([r["prop"]], 100000, args.seed) if key(m) == key(r) and
             hashlib.sha1(m["diff"].encode()).hexdigest()[:10] == r["id"])
    wt = worktree()
    ev = tempfile.mkdtemp(prefix="tvm-mutev-")
    try:
        open(os.path.join(wt, m["file"]), "w").write(m["source"])
        print(m["diff"])
        env = dict(os.environ, TVM_REPO=wt, TVM_EVIDENCE_DIR=ev, TVM_REPLAY_DIR=ev, VERIF_SEED="0")
        c = subprocess.run(["/venv/bin/python", "-m", "tvm", "check", args.check or r["prop"], "--tier", args.tier],
                           capture_output=True, text=True, cwd=ROOT, env=env)
        print("\n".join(ln[:int(os.environ.get("COLS", "600"))] for ln in c.stdout.splitlines()
                        if "monitors evaluated" not in ln)[-6000:])
        print("exit", c.returncode)
    finally:
        sh("git -C /repo worktree remove --force %s" % wt)
        shutil.rmtree(wt, ignore_errors=True)
        shutil.rmtree(ev, ignore_errors=True)


def write_md(allr):
    triage = {}
    tp = os.path.join(ROOT, "mutation", "TRIAGE2.json" if OPS2[0] else "TRIAGE.json")
    if os.path.exists(tp):
        triage = json.load(open(tp))
    with open(os.path.join(ROOT, "mutation", RES_NAME + ".md"), "w") as f:
        f.write("# Syntactic mutants of the anchored code vs. the checks\n\n"
                "Produced by `tools/mutation_run.py` (see its docstring) against /repo HEAD.  A mutant is generated inside "
                "every function an anchor of the property points into; those the repository's own suite kills are "
                "discarded; the property's quick check is run on the rest; what it lets through is run against the quick "
                "checks of the other properties anchored in the same file and then of all twenty (anchors overlap: the "
                "function listed under one property often carries behaviour another one states; the same mutant is listed "
                "under every property whose anchors contain it).  What no check catches is triaged in "
                "`mutation/TRIAGE.json` by the rules of `tools/mutation_triage.py` (dead code / equivalent / cosmetic / "
                "outside every property's domain, each with the reason).\n\n"
                "| property | generated | killed by the repository's suite | caught by its check | caught by another property's check | by none | other (timeout, inconclusive) |\n"
                "|---|---|---|---|---|---|---|\n")
        byp = {}
        for r in allr:
            byp.setdefault(r["prop"], []).append(r)
        tot = [0] * 6
        for pid in sorted(byp):
            rs = byp[pid]
            k = sum(1 for r in rs if r["verdict"] == "killed-by-suite")
            c = sum(1 for r in rs if r["verdict"] == "caught")
            x = sum(1 for r in rs if r["verdict"] in ("NOT-CAUGHT", "inconclusive") and r.get("caught_by"))
            n = sum(1 for r in rs if r["verdict"] in ("NOT-CAUGHT", "inconclusive") and not r.get("caught_by"))
            o = len(rs) - k - c - x - n
            row = [len(rs), k, c, x, n, o]
            tot = [a + b for a, b in zip(tot, row)]
            f.write("| %s | %d | %d | %d | %d | %d | %d |\n" % tuple([pid] + row))
        f.write("| all | %d | %d | %d | %d | %d | %d |\n" % tuple(tot))
        f.write("\n## Caught by no check (triage)\n\n")
        for r in allr:
            if r["verdict"] in ("NOT-CAUGHT", "inconclusive") and not r.get("caught_by"):
                t = triage.get(r["id"], {})
                f.write("### %s %s `%s` %s (%s)%s\n\n```diff\n%s```\n\n%s\n\n" % (
                    r["prop"], r["file"], r["func"], r["mutation"], r["id"],
                    "" if "caught_by" in r else " - not cross-checked yet", r["diff"],
                    "**triage: %s** - %s" % (t.get("class", "?"), t.get("why", "")) if t else "**triage: pending**"))


def main():
    ap = argparse.ArgumentParser()
    ap.add_argument("--props", default="")
    ap.add_argument("--per-prop", type=int, default=120)
    ap.add_argument("--jobs", type=int, default=12)
    ap.add_argument("--seed", type=int, default=0)
    ap.add_argument("--tier", default="quick")
    ap.add_argument("--resume", action="store_true", help="skip mutants already in mutation/journal.jsonl")
    ap.add_argument("--cross", action="store_true", help="second phase: run what a check let through against the "
                    "checks of the other properties anchored in the same file")
    ap.add_argument("--ops2", action="store_true", help="use the second operator set (results in mutation/RESULTS2.*)")
    ap.add_argument("--all", action="store_true", help="with --cross: re-check what no check caught so far against "
                    "the quick checks of ALL properties (own first, then those anchored in the same file, then the rest)")
    ap.add_argument("--render", action="store_true", help="only re-render RESULTS.md from RESULTS.json + TRIAGE.json")
    ap.add_argument("--try", dest="try_id", help="apply the mutant with this id (RESULTS.json) to a scratch worktree and "
                    "run the check given with --check (default: its property's) against it, printing the output")
    ap.add_argument("--check", default="")
    args = ap.parse_args()
    OPS2[0] = args.ops2
    if args.ops2:
        global RES_NAME
        RES_NAME = "RESULTS2"
    if args.try_id:
        return try_main(args)
    if args.render:
        return write_md(json.load(open(os.path.join(ROOT, "mutation", RES_NAME + ".json"))))
    if args.cross:
        return cross_main(args)
    props = [p for p in args.props.split(",") if p]
    todo = plan(props, args.per_prop, args.seed)
    print("planned %d mutants" % len(todo), flush=True)
    results = []
    os.makedirs(os.path.join(ROOT, "mutation"), exist_ok=True)
    journal = open(os.path.join(ROOT, "mutation", "journal%s.jsonl" % ("2" if OPS2[0] else "")), "a")
    if args.resume:
        done = set()
        for line in open(os.path.join(ROOT, "mutation", "journal%s.jsonl" % ("2" if OPS2[0] else ""))):
            r = json.loads(line)
            done.add((r["prop"], r["file"], r["func"], r["mutation"]))
            results.append(r)
        todo = [m for m in todo if (m["prop"], m["file"], m["func"], m["mutation"]) not in done]
        print("resuming: %d already done, %d to go" % (len(results), len(todo)), flush=True)
    try:
        with concurrent.futures.ThreadPoolExecutor(args.jobs) as ex:
            for r in ex.map(lambda m: run_mutant(m, args.tier), todo):
                results.append(r)
                journal.write(json.dumps(r) + "\n")
                journal.flush()
                if len(results) % 25 == 0:
                    print("%d/%d done" % (len(results), len(todo)), flush=True)
    finally:
        for wt in _all_wts:
            sh("git -C /repo worktree remove --force %s" % wt)
            shutil.rmtree(wt, ignore_errors=True)
    outdir = os.path.join(ROOT, "mutation")
    os.makedirs(outdir, exist_ok=True)
    path = os.path.join(outdir, RES_NAME + ".json")
    old = {}
    if os.path.exists(path):
        old = {(r["prop"], r["file"], r["func"], r["mutation"]): r for r in json.load(open(path))}
    for r in results:
        r["id"] = hashlib.sha1(r["diff"].encode()).hexdigest()[:10]
        old[(r["prop"], r["file"], r["func"], r["mutation"])] = r
    allr = [old[k] for k in sorted(old)]
    json.dump(allr, open(path, "w"), indent=1)
    write_md(allr)
    n = lambda v: sum(1 for r in results if r["verdict"] == v)  # noqa: E731
    print("this run: %d mutants, %d killed by suite, %d caught, %d NOT caught, %d other" % (
        len(results), n("killed-by-suite"), n("caught"), n("NOT-CAUGHT"),
        len(results) - n("killed-by-suite") - n("caught") - n("NOT-CAUGHT")))


if __name__ == "__main__":
    main()
