#!/venv/bin/python
"""Hand triage of the mutants no check catches, kept as rules so that it can be re-applied after a new run.

Each rule: (predicate over a RESULTS.json entry) -> (class, why).  Classes:
  dead-code      the mutated statement cannot be reached in this tree / on this interpreter
  equivalent     reachable, but no observable behaviour changes (redundant statement, falsy-for-falsy, ...)
  cosmetic       only wording / layout of a message or a default nobody in the properties reads
  outside        behaviour changes, but for inputs or call patterns the properties do not quantify over
                 (malformed input, ill-formed histories, API misuse, debug switches)
  stale          the function was rewritten by a later `fix:` commit; the mutant no longer applies as recorded
Writes mutation/TRIAGE.json (id -> {class, why}) and prints what no rule matched.
"""
import json
import os
import sys

ROOT = os.path.dirname(os.path.dirname(os.path.abspath(__file__)))


def minus(r):
    return "\n".join(l[1:].strip() for l in r["diff"].splitlines() if l.startswith("-") and not l.startswith("---"))


def plus(r):
    return "\n".join(l[1:].strip() for l in r["diff"].splitlines() if l.startswith("+") and not l.startswith("+++"))


RULES = [
    # ---- dead code ---------------------------------------------------------------------------------
    (lambda r: r["func"] == "_slow_escape",
     "dead-code", "compat._slow_escape is only called from the tail of text_repr, which is unreachable (below)"),
    (lambda r: r["func"] == "text_repr" and not minus(r).startswith("if multiline is None"),
     "dead-code", "text_repr returns from `if not multiline` or from `if multiline`; the quote-choosing tail after "
                  "them never runs (and `if multiline:` -> `if True:` is the same branch)"),
    (lambda r: r["func"] == "maybe_wrap",
     "dead-code", "content.maybe_wrap is not used anywhere in the package"),
    (lambda r: r["func"] == "list_test",
     "dead-code", "the 'unittest.loader.ModuleImportFailure.' id prefixes belong to Pythons before 3.5; on this "
                  "interpreter failed imports are `_FailedTest` ids and arrive through loader.errors"),
    (lambda r: r["func"] in ("_BinaryComparison.comparator", "Matcher.__str__") and "NotImplementedError" in minus(r),
     "dead-code", "abstract placeholder: every stock matcher overrides it"),
    (lambda r: "common_length == 0" in minus(r) or "common_length can't be 0" in minus(r),
     "dead-code", "defensive branch: both lists are non-empty here, min() cannot be 0"),
    (lambda r: r["func"] == "ConcurrentStreamTestSuite.run" and ("unknown event type" in minus(r) or "'startTestRun'" in minus(r)),
     "dead-code", "the queue only ever carries the event names StreamToQueue writes"),
    (lambda r: r["func"] == "on_deferred_result" and ("ImpossibleDeferredError" in minus(r) or "successes and failures" in minus(r)),
     "dead-code", "a Deferred cannot have called back and errbacked the freshly added pair; the guard is defensive"),
    # ---- equivalent --------------------------------------------------------------------------------
    (lambda r: "super().__init__(" in minus(r) or "Matcher.__init__(self)" in minus(r) or "TestResult.__init__" in minus(r) and plus(r) == "pass",
     "equivalent", "the base __init__ that is skipped sets nothing these objects use (object / Matcher / Mismatch(None) / "
                   "StreamResult have no state of their own)"),
    (lambda r: plus(r) == "pass" and any(k in minus(r) for k in ("super().startTestRun()", "super().stopTestRun()", "super().status(", "super().stopTest(test)")),
     "equivalent", "the base-class method skipped is StreamResult's / unittest.TestResult's no-op (or bookkeeping nothing reads: _mirrorOutput)"),
    (lambda r: r["func"] == "TestResult.startTestRun" and ("expectedFailures = []" in minus(r) or "unexpectedSuccesses = []" in minus(r)),
     "equivalent", "unittest.TestResult.__init__, called two lines above, already resets both lists"),
    (lambda r: r["func"] == "MatchesSetwise.match" and "(v, m) not in verdicts" in minus(r),
     "equivalent", "the memo only avoids re-evaluating a pair; C06 requires matchers to be deterministic"),
    (lambda r: "return False" in minus(r) and "return None" in plus(r),
     "equivalent", "None is as falsy as False for every caller"),
    (lambda r: r["func"] in ("_iter_chunks", "content_from_file") and "seek_whence=0" in minus(r),
     "equivalent", "content_from_file / content_from_stream always pass seek_whence on explicitly, and a freshly opened "
                   "file is at offset 0 where whence 0 and 1 coincide"),
    (lambda r: r["func"] in ("content_from_file", "content_from_stream", "content_from_reader") and "content_type is None" in minus(r) and "if False" in plus(r),
     "equivalent", "the default is applied again by the function this one delegates to (content_from_reader / Content)"),
    (lambda r: r["func"] == "MismatchError.__str__" and "isinstance(self.matchee, (str, bytes))" in minus(r),
     "equivalent", "text_repr(x, multiline=False) IS repr(x); both branches produce the same text"),
    (lambda r: r["func"] == "ExtendedToStreamDecorator._convert" and "if details is None" in minus(r),
     "equivalent", "err and details are mutually exclusive (_check_args): details is always None on this path"),
    (lambda r: r["func"].endswith("force_failure") or (r["func"] == "AsynchronousDeferredRunTest._run_deferred" and "return d" in minus(r)),
     "equivalent", "the Deferred _run_user returns for a synchronous function has already fired; not returning it changes nothing"),
    (lambda r: r["func"] == "Spinner._restore_signals" and "_saved_signals = []" in minus(r),
     "equivalent", "_save_signals assigns a fresh list at the start of every run"),
    (lambda r: r["func"] == "Spinner._cancel_timeout" and "if self._timeout_call" in minus(r),
     "equivalent", "run() always schedules the timeout call before anything can cancel it"),
    (lambda r: r["func"] == "TestCase._reset" and "_TestCase__forced_by_expectation', False" in minus(r) and "True" in plus(r),
     "equivalent", "the attribute is always set after the first _reset(); the default is only read from __init__, where "
                   "there is no force_failure in the instance dict to pop"),
    (lambda r: r["func"] == "TestCase._report_traceback" and "__testtools_tb_locals__" in minus(r),
     "equivalent", "RunTest sets the attribute before any stage runs; the default is never read during a run"),
    (lambda r: r["func"] == "RunTest._run_prepared_result" and "tb_locals" in minus(r),
     "equivalent", "every result flavour in the domain either has tb_locals or renders no locals; not a property clause"),
    (lambda r: r["func"] == "RunTest._got_user_exception" and "del exc_info" in minus(r),
     "equivalent", "only the lifetime of a local reference changes"),
    (lambda r: r["func"] == "RunTest._run_prepared_result" and "self._exceptions = []" in minus(r),
     "equivalent", "__init__ creates the list and every run drains it; a RunTest reused after a run that left exceptions "
                   "behind is the case C03's `runtest_reuse` covers (that sub-check catches the sibling mutant in _run_core)"),
    (lambda r: r["func"] == "sorted_tests" and "item[0] is not None" in minus(r),
     "equivalent", "only the position of EMPTY suites (key None) among the sorted groups changes; they hold no tests"),
    (lambda r: r["func"] == "TestCase.addDetailUniqueName" and "suffix += 1" in minus(r),
     "equivalent", "a free name is still found; which suffix is used is not part of C05"),
    (lambda r: r["func"] == "ThreadsafeForwardingResult._add_result_with_semaphore" and ("_test_tags = (set(), set())" in minus(r) or "_test_start = None" in minus(r)),
     "equivalent", "startTest() (tags) / the next startTest() (start time) reset the same field before it is read again"),
    (lambda r: r["func"] == "ThreadsafeForwardingResult.startTestRun" and "_test_tags" in minus(r),
     "equivalent", "the test-local buffer is empty between tests (reset at every outcome)"),
    (lambda r: r["func"] == "StreamSummary._uxsuccess" and "_outcome" in minus(r),
     "equivalent", "the placeholder kept in unexpectedSuccesses is only listed, never run again"),
    (lambda r: r["func"] == "PostfixedMismatch.__init__" and "self.mismatch = mismatch" in minus(r),
     "equivalent", "MismatchDecorator keeps the wrapped mismatch as self.original; self.mismatch is never read"),
    (lambda r: r["func"] == "ContentType.__eq__",
     "equivalent", "falsy for falsy"),
    (lambda r: r["func"] == "TestByTestResult.__init__" and plus(r) == "pass",
     "equivalent", "startTest() assigns the same three fields before they are read"),
    (lambda r: r["func"] == "TestControl.__init__",
     "equivalent", "object.__init__"),
    # ---- cosmetic ----------------------------------------------------------------------------------
    (lambda r: r["func"] == "_BinaryMismatch.describe" and "> 70" in minus(r),
     "cosmetic", "where the long form of the message starts (70 vs 71 characters)"),
    (lambda r: r["func"] == "MatchesSetwise.match" and ("common_length > 1" in minus(r)),
     "cosmetic", "singular / plural wording of the mismatch message; the verdict is unchanged"),
    (lambda r: r["func"] in ("_CombinedMatcher.format_expected", "MatchesException.__str__", "Raises.__str__", "AfterPreprocessing._str_preprocessor"),
     "cosmetic", "wording of str(matcher); it is still text (C07 requires no more)"),
    (lambda r: r["func"].startswith("TextTestResult.") and any(k in minus(r) for k in ("sep1", "sep2", "'=' * 70", "'-' * 70", "_delta_to_float")),
     "cosmetic", "separator lines / digits of the elapsed time in the text report"),
    (lambda r: r["func"] == "TextTestResult.__init__" and "tb_locals=False" in minus(r),
     "cosmetic", "whether tracebacks list locals by default"),
    (lambda r: r["func"] == "TestProgram.__init__" and any(k in minus(r) for k in ("progName", "elements[-2]", "argv[0]", "run.py")),
     "cosmetic", "the program name shown in usage messages"),
    (lambda r: r["func"] in ("StreamFailFast.status", "_StreamToTestRecord.status") and minus(r).startswith("def status("),
     "cosmetic", "default of a parameter the method does not read (runnable / eof)"),
    # ---- outside every property's domain ------------------------------------------------------------
    (lambda r: r["func"] == "_make_content_type",
     "outside", "error handling for MALFORMED mime types ('*', 'a/b/c', charset lists); the properties quantify over "
                "well-formed content types"),
    (lambda r: r["func"].startswith("TestByTestResult.") and ("super().add" in minus(r) or "elif reason" in minus(r)),
     "outside", "TestByTestResult's own TestResult bookkeeping (its errors / failures lists, a reason AND details given "
                "together) - C08 specifies the callback, which is unaffected"),
    (lambda r: r["func"] in ("TestByTestResult.startTest", "TestByTestResult.stopTest") and plus(r) == "pass",
     "outside", "only differs for a test that is started and stopped without any outcome (an ill-formed history)"),
    (lambda r: r["func"] == "TestProgram.__init__" and any(k in minus(r) for k in ("self.failfast", "self.catchbreak", "self.verbosity", "self.buffer", "self.tb_locals", "self.listtests", "self.load_list", "verbosity=1", "tb_locals=False", "argv is None", "stdout is None", "source.close", "source.readlines")),
     "outside", "option plumbing of unittest.TestProgram (overwritten by parseArgs, or only read for argv=None / "
                "stdout=None callers) and closing the list file - not the --list / --load-list behaviour C19 states"),
    (lambda r: r["func"] == "TestProgram.runTests",
     "outside", "--catch (installHandler) and the exit=False branch of TestProgram; C04 states the exit status, which the "
                "checks read through SystemExit"),
    (lambda r: r["func"] == "filter_by_ids" and "isinstance(suite_or_case, unittest.TestSuite)" in minus(r),
     "outside", "only differs for objects that are neither suites nor have an id(): not tests"),
    (lambda r: r["func"] in ("AsynchronousDeferredRunTest._run_core",) and ("unhandled-error-in-deferred-debug" in minus(r) or "if info" in minus(r)),
     "outside", "the extra detail attached when Deferred debugging is switched on"),
    (lambda r: r["func"] == "Spinner.run" and "finally" in r["diff"],
     "outside", "only differs when reactor.run() itself raises (a second Spinner started on a reactor that is already "
                "running): not among the functions / stop instants C15 quantifies over"),
    (lambda r: r["func"] == "RunTest._run_core" and "finally" in r["diff"],
     "outside", "only differs when _run_user itself raises, i.e. when an addOnException handler raises - excluded "
                "(documented to halt test processing)"),
    (lambda r: r["func"] == "TestCase._reset" and "__forced_by_expectation = False" in minus(r),
     "outside", "needs the user to assign force_failure on the instance between two runs, after a run in which an "
                "expectation failed"),
    (lambda r: r["func"] in ("ExtendedToOriginalDecorator._set_shouldStop",),
     "outside", "assigning shouldStop on the decorator (rather than calling stop()) - C04 states stop()"),
    (lambda r: r["func"] == "TestResult.addExpectedFailure" and "expectedFailures.append" in minus(r),
     "outside", "the expectedFailures list is not part of the verdict, the summary or the exit status"),
    (lambda r: r["func"] == "TestResult.addSkip" and "reason is None" in minus(r),
     "outside", "skip_reasons bookkeeping for a skip reported with both or neither of reason and details"),
    (lambda r: r["func"] == "TestResultDecorator.progress",
     "outside", "return value of progress(); nothing in the properties reads it"),
    (lambda r: r["func"] == "ExtendedToOriginalDecorator.stopTest" and "_tags.parent" in minus(r),
     "outside", "stopTest without a startTest (beyond the startTest-less skip pair, which is covered)"),
    (lambda r: r["func"] == "MultiTestResult._get_failfast",
     "equivalent", "MultiTestResult wraps every constituent in ExtendedToOriginalDecorator, which always has a failfast "
                   "property: the default of the getattr is never used"),
    (lambda r: r["func"] in ("ExtendedToOriginalDecorator.addSuccess", "ExtendedToOriginalDecorator.addUnexpectedSuccess") and "details is not None" in minus(r),
     "equivalent", "details=None passed explicitly is what the extended targets' own default is; older targets raise the "
                   "TypeError the next line already handles"),
    (lambda r: r["func"] == "PlaceHolder.run" and "_timestamps[0]" in minus(r),
     "outside", "only differs for a replayed test whose FIRST event carried no timestamp while a later one did: a "
                "time(None) is sent before startTest; which clock such a test's start is read from is not stated"),
    (lambda r: r["func"] == "TestProgram.__init__" and "self.module = None" in minus(r),
     "equivalent", "unittest.TestProgram has `module = None` as a class attribute"),
]


def main():
    path = os.path.join(ROOT, "mutation", "RESULTS.json")
    rs = json.load(open(path))
    out, unmatched = {}, []
    for r in rs:
        if r["verdict"] not in ("NOT-CAUGHT", "inconclusive") or r.get("caught_by"):
            continue
        if r.get("stale"):
            out[r["id"]] = {"class": "stale", "why": r["stale"]}
            continue
        for pred, cls, why in RULES:
            try:
                hit = pred(r)
            except Exception:
                hit = False
            if hit and cls:
                out[r["id"]] = {"class": cls, "why": why}
                break
        else:
            unmatched.append(r)
    json.dump(out, open(os.path.join(ROOT, "mutation", "TRIAGE.json"), "w"), indent=1, sort_keys=True)
    import collections
    print(collections.Counter(v["class"] for v in out.values()))
    for r in unmatched:
        print("UNMATCHED", r["id"], r["prop"], r["func"], r["mutation"], "(rechecked)" if "caught_by" in r else "(not rechecked yet)")
        print("   -", minus(r)[:200].replace("\n", " | "))
        print("   +", plus(r)[:200].replace("\n", " | "))
    return 1 if unmatched else 0


if __name__ == "__main__":
    sys.exit(main())
