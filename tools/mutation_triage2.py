#!/venv/bin/python
"""Triage of what the SECOND mutation pass (tools/mutation_run.py --ops2) left uncaught by every check.

Reads mutation/RESULTS2.json, classifies every mutant whose verdict is NOT-CAUGHT / inconclusive and that no
check of another property caught either, by the rules below (first match wins; a rule is a predicate over the
mutated function and the diff), writes mutation/TRIAGE2.json (id -> {class, why}) and prints what no rule matched.

Classes (as in tools/mutation_triage.py): equivalent, dead-code, cosmetic, outside, out-of-domain.
"""
import json
import os

ROOT = os.path.dirname(os.path.dirname(os.path.abspath(__file__)))


def minus(m):
    return " ".join(l[1:].strip() for l in m["diff"].split("\n") if l.startswith("-") and not l.startswith("---"))


def plus(m):
    return " ".join(l[1:].strip() for l in m["diff"].split("\n") if l.startswith("+") and not l.startswith("+++"))


RULES = [
    ("equivalent", "a flag that is only read for its truth value: None is as falsy as False",
     lambda m: any(plus(m).strip() == "%s = None" % v for v in ("failed", "failing", "successful"))),
    ("equivalent", "`==` <-> `is` against a private sentinel / a class / None / a module object: the same relation for these operands",
     lambda m: m["mutation"].startswith("is-eq") and any(k in minus(m) for k in (
         "exception_caught", "MultipleExceptions", "fixtures is not", "_UNSET", "is None", "is not None"))),
    ("cosmetic", "only the text of an error message / usage line changes (arguments of an exception constructor, a default reason, the program name)",
     lambda m: any(k in minus(m) for k in ("TimeoutError(", "ReentryError(", "ImpossibleDeferredError(", "None not permitted",
                                           "reason = 'Unknown'", "reason = 'No reason given'", "progName ="))
     or ("module == __name__" in minus(m))),
    ("equivalent", "a string inside an annotation, never evaluated",
     lambda m: "List['" in minus(m)),
    ("dead-code", "after the function's last return / in a helper nothing calls (compat.text_repr tail, _slow_escape, maybe_wrap)",
     lambda m: m["func"] in ("_slow_escape", "maybe_wrap") or (m["func"] == "text_repr" and ("escaped_text" in minus(m) or "quote =" in minus(m)))),
    ("equivalent", "str.find(sub, None) is str.find(sub, 0)",
     lambda m: m["func"] == "text_repr" and "p = 0" in minus(m)),
    ("equivalent", "TracebackContent's `test` parameter is only read behind `if False`",
     lambda m: "TracebackContent(err, err" in plus(m)),
    ("outside", "tb_locals / capture_locals: no property speaks of locals in tracebacks",
     lambda m: "capture_locals" in minus(m) and "capture_locals" not in plus(m)),
    ("equivalent", "_check_args(a, b) only tests that not both are given: symmetric",
     lambda m: "_check_args(details, reason)" in plus(m)),
    ("outside", "TestByTestResult's inherited bookkeeping lists (its own failures / skip_reasons), not what the callback receives",
     lambda m: m["func"].startswith("TestByTestResult.add") and "super()" in minus(m)),
    ("equivalent", "min(a, b) with its arguments swapped",
     lambda m: "common_length = min(" in minus(m)),
    ("equivalent", "route_code is None on this branch: prefix = route_code already is None",
     lambda m: m["func"] == "StreamResultRouter.status" and "prefix = None" in plus(m)),
    ("dead-code", "a second `break` straight after a `break`",
     lambda m: m["func"] == "_flatten_tests" and plus(m).strip() == "break"),
    ("dead-code", "'exists' tests never reach the status dispatch table (filtered before); the base class' status() ignores its arguments",
     lambda m: m["func"] in ("StreamSummary.__init__", "_StreamToTestRecord.status")),
    ("out-of-domain", "a MIME string that is not type/subtype ('*', a charset with a trailing comma): C16 / C09 quantify over well-formed content types",
     lambda m: m["func"] == "_make_content_type"),
    ("equivalent", "content_type=None is replaced by the same default one call further down (content_from_reader)",
     lambda m: m["func"] in ("content_from_file", "content_from_stream", "content_from_reader") and "content_type = None" in plus(m)),
    ("outside", "details the async runner adds in Deferred-debug mode / the number of 'unhandled-error' and 'logged-error' details: C14 states the outcome, not how many details describe it",
     lambda m: m["func"].startswith("AsynchronousDeferredRunTest._run_core")),
    ("outside", "which of several application observers are silenced DURING the test (C14: afterwards they are all back - they are); CaptureTwistedLogs installs one observer",
     lambda m: m["func"] in ("_NoTwistedLogObservers._setUp", "_TwistedLogObservers._setUp")),
    ("equivalent", "the plain Spinner makes no clean-up iterations (range(0)); for the ForBrokenTwisted variant see C14's leave_closing family",
     lambda m: m["func"] == "Spinner._clean" and "iterate" in m["diff"]),
    ("equivalent", "callLater(timeout, self._timed_out, function, timeout): the extra arguments only end up in the TimeoutError's text",
     lambda m: m["func"] == "Spinner.run" and "_timed_out" in minus(m)),
    ("outside", "the skip_reasons bookkeeping of testtools.TestResult when a skip arrives as details without a 'reason' (C04: verdict, summary, stop control)",
     lambda m: m["func"] == "TestResult.addSkip"),
    ("outside", "Ctrl-C handling of the command line (catchbreak / installHandler): not among C04's clauses",
     lambda m: m["func"] == "TestProgram.runTests"),
    ("outside", "an interrupt arriving while the details of a fixture whose old-style setUp() has just failed are being gathered: narrower than anything C02 / C05 quantify over",
     lambda m: m["func"] == "TestCase.useFixture" and "except BaseException" in minus(m)),
    ("outside", "list_test's collection of import errors (what --list prints when modules fail to import): not among C19's clauses",
     lambda m: m["func"] == "list_test"),
    ("outside", "an attachment without any bytes (an empty detail) - whether it survives the stream is not asserted (DESIGN, C09)",
     lambda m: m["func"] == "ExtendedToStreamDecorator._convert" and "file_bytes = None" in plus(m)),
]


def main():
    res = json.load(open(os.path.join(ROOT, "mutation", "RESULTS2.json")))
    out, unmatched = {}, []
    for m in res:
        if m["verdict"] not in ("NOT-CAUGHT", "inconclusive") or m.get("caught_by"):
            continue
        for cls, why, pred in RULES:
            try:
                hit = pred(m)
            except Exception:  # noqa
                hit = False
            if hit:
                out[m["id"]] = {"class": cls, "why": why}
                break
        else:
            unmatched.append(m)
    json.dump(out, open(os.path.join(ROOT, "mutation", "TRIAGE2.json"), "w"), indent=1, sort_keys=True)
    import collections
    print("triaged:", len(out), dict(collections.Counter(v["class"] for v in out.values())))
    print("unmatched:", len(unmatched))
    for m in unmatched:
        print(" ", m["id"], m["prop"], m["func"], "|", minus(m)[:80], "=>", plus(m)[:80])


if __name__ == "__main__":
    main()
