#!/venv/bin/python
"""Run every seeded change under /verif/seeded against the check of the property it breaks.

usage: tools/seed_matrix.py [--tier quick] [--only C01-a,...] [--jobs 8] [--cross]
Writes seeded/RESULTS.md and seeded/RESULTS.json.  Each change is applied to a scratch
worktree of /repo HEAD (never to /repo) which is removed afterwards.
"""
import argparse
import concurrent.futures
import json
import os
import shutil
import subprocess
import tempfile

ROOT = os.path.dirname(os.path.dirname(os.path.abspath(__file__)))


def run_one(sid, prop, tier, seed):
    patch = os.path.join(ROOT, "seeded", sid, "patch.diff")
    wt = tempfile.mkdtemp(prefix="tvm-mut-")
    os.rmdir(wt)
    ev = tempfile.mkdtemp(prefix="tvm-ev-")
    try:
        r = subprocess.run(["git", "-C", "/repo", "worktree", "add", "-q", "--detach", wt, "HEAD"],
                           capture_output=True, text=True)
        if r.returncode:
            return sid, prop, "error", r.stderr[-200:]
        a = subprocess.run(["git", "-C", wt, "apply", patch], capture_output=True, text=True)
        if a.returncode:
            return sid, prop, "does-not-apply", a.stderr.strip()[-200:]
        if not os.path.exists(os.path.join(ROOT, "tvm", "checks", prop.lower() + ".py")):
            return sid, prop, "no-check-yet", ""
        env = dict(os.environ, TVM_REPO=wt, TVM_EVIDENCE_DIR=ev, TVM_REPLAY_DIR=ev, VERIF_SEED=str(seed))
        c = subprocess.run(["/venv/bin/python", "-m", "tvm", "check", prop, "--tier", tier],
                           capture_output=True, text=True, cwd=ROOT, env=env, timeout=3600)
        kinds = [l for l in c.stdout.splitlines() if "] violated:" in l][:4]
        verdict = {0: "MISSED", 1: "caught", 2: "inconclusive"}.get(c.returncode, "rc=%d" % c.returncode)
        return sid, prop, verdict, "; ".join(k.split("violated:")[1].strip() for k in kinds)
    finally:
        subprocess.run(["git", "-C", "/repo", "worktree", "remove", "--force", wt], capture_output=True)
        shutil.rmtree(wt, ignore_errors=True)
        shutil.rmtree(ev, ignore_errors=True)


def main():
    ap = argparse.ArgumentParser()
    ap.add_argument("--tier", default="quick")
    ap.add_argument("--only", default="")
    ap.add_argument("--jobs", type=int, default=8)
    ap.add_argument("--seed", type=int, default=0)
    args = ap.parse_args()
    sids = sorted(d for d in os.listdir(os.path.join(ROOT, "seeded"))
                  if os.path.isdir(os.path.join(ROOT, "seeded", d)))
    if args.only:
        sids = [s for s in sids if s in args.only.split(",") or s.split("-")[0] in args.only.split(",")]
    jobs = []
    with concurrent.futures.ThreadPoolExecutor(args.jobs) as ex:
        for sid in sids:
            meta = json.load(open(os.path.join(ROOT, "seeded", sid, "meta.json")))
            jobs.append(ex.submit(run_one, sid, meta["breaks_property"], args.tier, args.seed))
        results = [j.result() for j in jobs]
    path = os.path.join(ROOT, "seeded", "RESULTS.json")
    old = {}
    if os.path.exists(path):
        old = {r["id"]: r for r in json.load(open(path))}
    for sid, prop, verdict, info in results:
        old[sid] = {"id": sid, "property": prop, "tier": args.tier, "verdict": verdict, "violated": info}
        print("%-8s %-4s %-14s %s" % (sid, prop, verdict, info[:110]))
    allr = [old[k] for k in sorted(old)]
    json.dump(allr, open(path, "w"), indent=1)
    with open(os.path.join(ROOT, "seeded", "RESULTS.md"), "w") as f:
        f.write("# Seeded property-breaking changes vs. the checks\n\n"
                "Produced by `tools/seed_matrix.py` (each patch applied to a scratch worktree of /repo HEAD, "
                "the quick check of the broken property run against it).\n\n"
                "| change | property | result | violated monitors |\n|---|---|---|---|\n")
        for r in allr:
            f.write("| %s | %s | %s | %s |\n" % (r["id"], r["property"], r["verdict"], r["violated"].replace("|", "/")))
    missed = [r["id"] for r in allr if r["verdict"] == "MISSED"]
    print("missed:", missed)


if __name__ == "__main__":
    main()
