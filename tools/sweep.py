import subprocess, sys, os, concurrent.futures, re
checks=["C%02d"%i for i in range(1,21)]
seeds=[int(x) for x in sys.argv[1].split(",")]
tier=sys.argv[2] if len(sys.argv)>2 else "quick"
def one(c, seed):
    env=dict(os.environ, TVM_EVIDENCE_DIR="/tmp/sweep-ev", TVM_REPLAY_DIR="/tmp/sweep-ev/replays", VERIF_SEED=str(seed), PYTHONHASHSEED="0")
    r=subprocess.run(["/venv/bin/python","-m","tvm","check",c,"--tier",tier],cwd="/verif",env=env,capture_output=True,text=True)
    lines=[l for l in r.stdout.splitlines() if re.search(r"tier=|VIOLATION|INCONCLUSIVE|violated:|first witness",l)]
    return c, seed, r.returncode, [l[:400] for l in lines[:6]]
with concurrent.futures.ThreadPoolExecutor(int(sys.argv[3]) if len(sys.argv)>3 else 4) as ex:
    futs=[ex.submit(one,c,s) for s in seeds for c in checks]
    for f in concurrent.futures.as_completed(futs):
        c,s,rc,lines=f.result()
        print(c,"seed",s,"rc",rc, lines[0] if rc==0 and lines else lines, flush=True)
