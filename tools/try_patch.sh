#!/bin/bash
# usage: tools/try_patch.sh <patch.diff> <Cxx> [quick|thorough] [seed]
# Applies the patch to a scratch worktree of /repo HEAD (never to /repo), runs the
# check against it with evidence/replays redirected, removes the worktree.
set -u
patch=$(realpath "$1"); prop=$2; tier=${3:-quick}; seed=${4:-0}
wt=$(mktemp -d /tmp/tvm-mut-XXXXXX); rmdir "$wt"
git -C /repo worktree add -q --detach "$wt" HEAD || exit 3
trap 'git -C /repo worktree remove --force "$wt" >/dev/null 2>&1; rm -rf "$wt" "$ev"' EXIT
ev=$(mktemp -d /tmp/tvm-ev-XXXXXX)
if ! git -C "$wt" apply "$patch"; then echo "PATCH DOES NOT APPLY"; exit 3; fi
cd /verif && TVM_REPO="$wt" TVM_EVIDENCE_DIR="$ev" TVM_REPLAY_DIR="$ev" VERIF_SEED=$seed /venv/bin/python -m tvm check "$prop" --tier "$tier" 2>&1 | grep -v "^\[.*monitors evaluated" | cut -c1-400 | tail -${TAIL:-8}
exit ${PIPESTATUS[0]}
