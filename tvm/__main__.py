"""python -m tvm check C07 [--tier quick|thorough] [--seed N] [--replay PATH]"""
import argparse
import os
import sys

from . import core


def main(argv=None):
    ap = argparse.ArgumentParser(prog="tvm")
    sub = ap.add_subparsers(dest="cmd", required=True)
    c = sub.add_parser("check")
    c.add_argument("property")
    c.add_argument("--tier", default=os.environ.get("VERIF_TIER") or "quick",
                   choices=["quick", "thorough"])
    c.add_argument("--seed", type=int, default=None)
    c.add_argument("--replay", default=None)
    c.add_argument("--jobs", type=int, default=None)
    s = sub.add_parser("shard")
    s.add_argument("property")
    s.add_argument("--tier", default="thorough")
    s.add_argument("--seed", type=int, default=0)
    s.add_argument("--shard", type=int, required=True)
    s.add_argument("--nshards", type=int, required=True)
    s.add_argument("--out", required=True)
    sub.add_parser("setup")
    args = ap.parse_args(argv)
    if args.cmd == "setup":
        import compileall
        ok = compileall.compile_dir(os.path.dirname(__file__), quiet=1)
        core.pin_repo()
        print("tvm setup ok; testtools pinned to", core.REPO_ROOT)
        return 0 if ok else 1
    if args.cmd == "shard":
        return core.main_shard(args.property.upper(), args.tier, args.seed,
                               args.shard, args.nshards, args.out)
    seed = args.seed
    if seed is None:
        try:
            seed = int(os.environ.get("VERIF_SEED", "0"))
        except ValueError:
            seed = 0
    return core.main_check(args.property.upper(), args.tier, seed, args.replay, args.jobs)


if __name__ == "__main__":
    sys.exit(main())
