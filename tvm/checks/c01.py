"""C01 - every test run is bracketed and yields exactly one outcome; BaseExceptions propagate."""

from .. import progen, programs, recorders

PROPERTY = "C01"
LEVEL = "fault_enumeration"
RULE = (
    "a case is (test program, result flavour).  Programs: the exhaustive block of 9 behaviours "
    "(return, failure, error, skip, expected failure, unexpected success, MultipleExceptions, "
    "KeyboardInterrupt, SystemExit) for each of setUp/test/tearDown x {no cleanup, one cleanup of "
    "each behaviour}, plus random programs (0..4 cleanups incl. nested registration, expectThat / "
    "assertThat mismatches, force_failure, skip decorators, missing upcalls, exception subclasses, "
    "nested MultipleExceptions, cleanups returning truthy values, @run_test_with).  Flavours: 2.6, "
    "2.7, extended, Twisted-style, testtools.TestResult, StreamResult behind ExtendedToStreamDecorator, "
    "result=None.  Distinct = canonical JSON of (program, flavour); non-trivial = at least one stage "
    "or cleanup raises, an expectation fails, or a skip decorator applies."
)
REQUIRED = {
    "mon:bracket.exactly-one-outcome": 500,
    "mon:base.propagates": 50,
    "mon:base.reported-as-error": 50,
    "mon:no-unexpected-raise": 200,
}
ASSUMPTIONS = [
    "addOnException handlers that raise are excluded (documented to halt test processing)",
    "a fixture used from ANOTHER fixture's _setUp is not interrupted (KeyboardInterrupt / SystemExit): the fixtures "
    "library's own Fixture.useFixture (4.3.2) replaces that by a TypeError before testtools sees anything",
    "most programs run on the plain RunTest; 30 % of the random ones on SynchronousDeferredRunTest / "
    "AsynchronousDeferredRunTest (virtual-time reactor), without skip decorators for the latter",
]

FLAVOURS = ["py26", "py27", "ext", "twisted", "real", "stream", "none"]
EXTRA_FLAVOURS = ["ext-falsy"]
FINAL = {"success", "fail", "skip", "xfail", "uxsuccess"}


def expand(case):
    if "triple" in case:
        t = case["triple"]
        return progen.triple_program(t["su"], t["te"], t["td"], t["cl"])
    return case["prog"]


def make_result_factory(flavour):
    import testtools
    log = recorders.Log()
    if flavour == "py26":
        return log, lambda: recorders.Py26Recorder(log)
    if flavour == "py27":
        return log, lambda: recorders.Py27Recorder(log)
    if flavour in ("ext", "none"):
        return log, lambda: recorders.ExtRecorder(log)
    if flavour == "ext-falsy":
        class EmptyLooking(recorders.ExtRecorder):
            """A result that is falsy while it holds nothing (defines __len__)."""

            def __len__(self):
                return 0
        return log, lambda: EmptyLooking(log)
    if flavour == "twisted":
        return log, lambda: recorders.TwistedRecorder(log)
    if flavour == "real":
        return log, lambda: recorders.make_real_recorder(testtools.TestResult, log)
    if flavour == "stream":
        def stream_result():
            r = testtools.ExtendedToStreamDecorator(recorders.StreamRecorder(log))
            r.failfast = False      # what a runner does with its own setting (unittest.TextTestRunner: result.failfast = ...)
            return r
        return log, stream_result
    raise ValueError(flavour)


def x_prog(ctx, case):
    program = expand(case)
    flavour = case["flavour"]
    log, factory = make_result_factory(flavour)
    runner = programs.runner_factory_for(case.get("runner"))
    pre_env = pre_case = None
    if case.get("legacy_sibling") and not program.get("clone_id"):
        # another instance of the same class was run first with an old-style RunTest factory (one that takes no
        # last_resort - TestCase.run() falls back for it); the instance under observation is an ordinary one
        from testtools.runtest import RunTest
        pre_env = programs.Env(program)
        pre_case = programs.build_case(program, pre_env, runner, factory if flavour == "none" else None)
        sibling = type(pre_case)("test_sibling", runTest=lambda c, handlers: RunTest(c, handlers))
        sibling._tvm_sibling = True
        sib_log = recorders.Log()
        try:
            sibling.run(recorders.ExtRecorder(sib_log))
            sib_exc = None
        except Exception as e:  # noqa - (an empty test with a runner factory of the older signature: ordinary use)
            sib_exc = e
        sib_core = [n for n in sib_log.names() if n in ("startTest", "stopTest") or n in recorders.OUTCOMES]
        ctx.check(sib_exc is None and len(sib_core) == 3 and sib_core[0] == "startTest" and sib_core[2] == "stopTest"
                  and sib_core[1] in recorders.OUTCOMES, "bracket.exactly-one-outcome",
                  lambda: {"a sibling run through an old-style RunTest factory (no last_resort)": sib_core, "raised": repr(sib_exc)})
    if flavour == "none":
        run = programs.execute(program, pass_none=True, default_result=factory,
                               runner_factory=runner, env=pre_env, case=pre_case)
    else:
        run = programs.execute(program, factory, runner_factory=runner, env=pre_env, case=pre_case)
    env = run.env
    raised = env.raised
    base = [r for r in raised if r[0] in programs.BASE_KINDS]
    forced = bool(env.tags("expect_mismatch", "force")) or bool(program.get("force_attr"))
    nontrivial = bool(raised) or forced or programs.is_decor_skip(program)
    names = log.names()
    detail = lambda: {"events": names, "raised": [(k, t) for k, t, _ in raised],  # noqa: E731
                      "propagated": repr(run.propagated)}
    # ---- bracket ------------------------------------------------------------
    if flavour == "stream":
        ev = [e.payload for e in log.of("status") if e.payload["test_id"] == program.get("clone_id", "prog.test")]
        statuses = [p["test_status"] for p in ev if p["test_status"] is not None]
        finals = [s for s in statuses if s in FINAL]
        # (the final status is the LAST event about the test: an attachment sent after it would open the test again
        # for every stream consumer)
        ok = (len(statuses) >= 2 and statuses[0] == "inprogress" and len(finals) == 1
              and statuses[-1] == finals[0] and statuses.count("inprogress") == 1
              and ev[-1]["test_status"] == finals[0])
        ctx.check(ok, "bracket.exactly-one-outcome", lambda: {"statuses": statuses, **detail()})
        outcome = {"fail": "addError", "success": "addSuccess", "skip": "addSkip",
                   "xfail": "addExpectedFailure", "uxsuccess": "addUnexpectedSuccess"}.get(
            finals[0]) if finals else None
    else:
        core = [n for n in names if n in ("startTest", "stopTest") or n in recorders.OUTCOMES]
        ok = (len(core) == 3 and core[0] == "startTest" and core[2] == "stopTest"
              and core[1] in recorders.OUTCOMES)
        ctx.check(ok, "bracket.exactly-one-outcome", lambda: {"core": core, **detail()})
        outcome = core[1] if ok else None
        if flavour == "none":
            ctx.check(names[:1] == ["startTestRun"] and names[-1:] == ["stopTestRun"]
                      and names.count("startTestRun") == 1 and names.count("stopTestRun") == 1,
                      "result-none.bracketed-by-run", detail)
    # ---- the events are about the test that was run (a clone reports under its own id) ------
    want_id = program.get("clone_id", "prog.test")
    if flavour != "stream":
        ids = {e.test for e in log.events if e.name in ("startTest", "stopTest") or e.name in recorders.OUTCOMES}
        ctx.check(ids <= {want_id}, "events.carry-the-id-of-the-test-run", lambda: {"ids": sorted(ids), "want": want_id})
    # ---- BaseException propagation ----------------------------------------------
    if base:
        ctx.check(run.propagated is not None and not isinstance(run.propagated, Exception),
                  "base.propagates", detail)
        ctx.check(any(run.propagated is r[2] for r in base), "base.propagates-is-the-raised-object",
                  detail)
        # stopTest was delivered before the exception left run(): the log is complete by now
        if flavour != "stream":
            ctx.check("stopTest" in names, "base.stopTest-before-propagation", detail)
        ctx.check(outcome in ("addError",), "base.reported-as-error",
                  lambda: {"outcome": outcome, **detail()})
    else:
        ctx.check(run.propagated is None, "no-unexpected-raise", detail)
    # ---- a raised exception never yields success -----------------------------------
    xfail_decor = program.get("decor") == "stdlib_expectedFailure"
    if outcome is not None and flavour in ("ext", "real", "py27", "none", "twisted", "ext-falsy") and not xfail_decor:
        if raised or forced:
            ctx.check(outcome != "addSuccess", "no-success-when-something-raised",
                      lambda: {"outcome": outcome, **detail()})
        elif not programs.is_decor_skip(program) and program.get("upcall_su", True) \
                and program.get("upcall_td", True):
            ctx.check(outcome == "addSuccess", "success-when-nothing-raised",
                      lambda: {"outcome": outcome, **detail()})
    # ---- later stages still run after a BaseException (C01 second sentence) ---------
    if base and not programs.is_decor_skip(program):
        entered = [e[2] for e in env.tags("enter")]
        setup_left = any(e[2] == "setUp" for e in env.tags("leave"))
        if setup_left and program.get("upcall_su", True):
            ctx.check("tearDown" in entered, "base.does-not-stop-tearDown", detail)
        regs = [e[2] for e in env.tags("reg")]
        ran = [e[2] for e in env.tags("cleanup_enter")]
        ctx.check(sorted(regs) == sorted(ran), "base.does-not-stop-cleanups",
                  lambda: {"registered": regs, "ran": ran, **detail()})
        # ... fixtures included: what useFixture set up is torn down (also when the interrupt came while the fixture's
        # details were being gathered)
        interrupted = {r[1][4:] for r in raised if r[0] == "kbd" and str(r[1]).startswith("FXD:")}
        fx_up = [e[2] for e in env.tags("fixture_setup") if e[2] in interrupted]
        fx_down = [e[2] for e in env.tags("fixture_cleanup") if e[2] in interrupted]
        ctx.check(sorted(fx_up) == sorted(fx_down), "base.does-not-stop-cleanups",
                  lambda: {"fixtures set up": fx_up, "cleaned up": fx_down, **detail()})
    if case.get("rerun") and flavour not in ("stream", "none"):
        # (also after a run that an interrupt left through run(): the instance can be run again)
        # the same instance once more: again exactly one outcome, nothing left over from run 1
        del log.events[:]
        first_run_forced = bool(env.tags("force"))
        run.env.reset_for_rerun()
        run2 = programs.execute(program, factory, env=run.env, case=run.case)
        core2 = [n for n in log.names() if n in ("startTest", "stopTest") or n in recorders.OUTCOMES]
        ctx.check(len(core2) == 3 and core2[0] == "startTest" and core2[2] == "stopTest"
                  and core2[1] in recorders.OUTCOMES, "bracket.exactly-one-outcome",
                  lambda: {"second run of the same instance": core2, "first": names})
        env2 = run2.env
        # (a force_failure the USER set on the instance in run 1 is theirs and stays; one set by a failed
        # expectThat belongs to the run it happened in)
        user_forced = first_run_forced
        if (len(core2) == 3 and not env2.raised and not env2.tags("expect_mismatch", "force") and not user_forced
                and not program.get("force_attr") and not programs.is_decor_skip(program) and not xfail_decor
                and program.get("upcall_su", True) and program.get("upcall_td", True)
                and flavour in ("ext", "real", "py27", "twisted", "ext-falsy")):
            # whatever the first run collected, a second run in which nothing is raised succeeds
            ctx.check(core2[1] == "addSuccess", "success-when-nothing-raised",
                      lambda: {"second run of the same instance": core2, "first": names,
                               "raised in the first run": [(k, t) for k, t, _ in raised]})
    return nontrivial


SUBCHECKS = {"prog": x_prog}

FEATURES = ("own_exc", "expect", "force", "decor", "noupcall", "nested_cleanup", "truthy_return",
            "mismatch_details", "handlers", "clone", "xfail_decor", "eq_exc", "setup_returns", "details", "fixture",
            "old_style_fixture", "base_handler", "bad_fixture_detail_kbd")


def run(ctx):
    rng = ctx.rng
    # exhaustive block: every flavour in thorough; quick takes a seed-rotated 1/6 slice per flavour
    n = 0
    stride = 1 if not ctx.quick else 6
    for fi, flavour in enumerate(FLAVOURS):
        for i, t in enumerate(progen.enum_triples()):
            if stride > 1 and (i + fi + ctx.seed) % stride:
                continue
            if ctx.mine():
                n += 1
                ctx.execute("prog", {"triple": t, "flavour": flavour})
    ctx.note_space("9^3 stage behaviours x 10 cleanup variants x 7 flavours"
                   + (" (1/%d slice, rotated by seed)" % stride if stride > 1 else ""),
                   n, complete=(stride == 1))
    # MultipleExceptions nested in MultipleExceptions (what stacked fixtures produce) holding an interrupt;
    # every result flavour x TestCases with their own failureException / skipException x single raises
    n = 0
    for fi, flavour in enumerate(FLAVOURS):
        for stage in ("su", "test", "td", "c1"):
            for inner in ("kbd", "exit"):
                for shape in (0, 1, 2):
                    if not ctx.mine():
                        continue
                    n += 1
                    a = ["raise", inner, "<<B1>>"]
                    e = ["raise", "error", "<<E2>>"]
                    multi = [["multi", [["multi", [a, e], "<<M3>>"], ["raise", "fail", "<<F4>>"]], "<<M5>>"],
                             ["multi", [e, ["multi", [["multi", [a], "<<M3>>"]], "<<M6>>"]], "<<M5>>"],
                             ["multi", [a, e], "<<M5>>"]][shape]
                    prog = {"su_pre": [], "su": [], "test": [], "td": [], "td_pre": [], "scratch": {}}
                    if stage == "c1":
                        prog["su_pre"].append(["cleanup", "c1", [multi]])
                    else:
                        prog[stage].append(multi)
                    ctx.execute("prog", {"prog": prog, "flavour": flavour})
        for own in ("own_fail", "own_skip"):
            for kind in ("fail", "skip", "xfail", "uxs", "error", "mismatch"):
                for stage in ("su", "test", "td"):
                    if ctx.mine():
                        n += 1
                        prog = {"su_pre": [], "su": [], "test": [], "td": [], "td_pre": [], "scratch": {}, own: True}
                        prog[stage].append(["raise", kind, "<<K1>>"])
                        ctx.execute("prog", {"prog": prog, "flavour": flavour})
    # a UTF-8 text detail whose chunks split a multi-byte character, attached by a test that then fails, errors,
    # skips or is interrupted: results that render details as text (2.6 / 2.7 / Twisted style, TestResult,
    # result=None) still get their one outcome
    split = ["detail", "log", "<<P9>>", ["636166c3", "a920e2", "98833c3c50393e3e"], "text"]
    for flavour in FLAVOURS:
        for kind in ("fail", "error", "skip", "xfail", "uxs", "kbd", None):
            for where in ("su", "test", "c1"):
                if not ctx.mine():
                    continue
                n += 1
                prog = {"su_pre": [], "su": [], "test": [], "td": [], "td_pre": [], "scratch": {}}
                body = [split] + ([["raise", kind, "<<K1>>"]] if kind else [])
                if where == "c1":
                    prog["su_pre"].append(["cleanup", "c1", body])
                else:
                    prog[where] += body
                ctx.execute("prog", {"prog": prog, "flavour": flavour})
    ctx.note_space("nested MultipleExceptions holding an interrupt (3 shapes x 2 x 4 stages) and single raises on "
                   "TestCases with own failureException / skipException (2 x 6 x 3), every result flavour", n)
    ctx.notes["random_cases"] = True
    for i in range(ctx.scale(2500, 250000)):
        if ctx.out_of_time():
            break
        prog = progen.random_program(rng, features=FEATURES)
        if rng.random() < 0.1:
            prog["rtw"] = True  # @run_test_with(RunTest) on the test method
        case = {"prog": prog, "flavour": rng.choice(FLAVOURS + EXTRA_FLAVOURS)}
        if rng.random() < 0.15 and "'handler'" not in repr(prog):
            case["rerun"] = True
            if rng.random() < 0.5:
                # everything the stages do happens in the first run only: the second run is clean
                for stage in ("su_pre", "su", "test", "td_pre", "td"):
                    if prog.get(stage):
                        prog[stage] = [["first_run_only", prog[stage]]]
        if rng.random() < 0.12:
            case["legacy_sibling"] = True
        r = rng.random()
        if r < 0.15:
            case["runner"] = "sync"
        elif r < 0.3 and not prog.get("decor"):
            case["runner"] = "async"   # skip decorators are a RunTest feature; the async runner runs setUp first
        ctx.execute("prog", case)
