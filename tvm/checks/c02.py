"""C02 - stage order; every cleanup exactly once, LIFO; patches undone; re-runnable."""

from .. import progen, programs, recorders

PROPERTY = "C02"
LEVEL = "fault_enumeration"
RULE = (
    "a case is a test program run 3 times on ONE TestCase instance against an extended recorder.  "
    "Programs: the exhaustive 9^3 x 10 behaviour block of C01, an exhaustive block of cleanup "
    "registration sites (setUp before/after upcall, test, tearDown, inside another cleanup) x 9 "
    "behaviours x 2 cleanups, and random programs with 0..6 cleanups (nested registration), patch() "
    "of existing / missing / twice-patched attributes (incl. value None), fixtures (ok / _setUp "
    "raising / cleanUp raising / nested) and addOnException handlers that raise while a test-method "
    "or tearDown failure is being recorded.  The monitor is an online stack model fed by the "
    "execution log (register -> push; cleanup run / patch undo / fixture cleanUp -> must be top).  "
    "Distinct = canonical JSON of the program; non-trivial = registers at least one cleanup, patch "
    "or fixture, or some stage raises."
)
REQUIRED = {
    "mon:stage.setUp-first": 500,
    "mon:stage.test-and-tearDown-iff-setUp-ok": 500,
    "mon:cleanup.lifo-top-of-stack": 500,
    "mon:cleanup.each-exactly-once": 500,
    "mon:cleanup.none-left-registered": 500,
    "mon:patch.restored": 100,
    "mon:rerun.same-sequence": 500,
}
ASSUMPTIONS = [
    "programs are deterministic by construction, so 'same sequence on re-run' is well defined",
    "addOnException handlers raise only for exceptions of the test method / tearDown (after setUp "
    "returned normally); a handler raising while a setUp or cleanup failure is recorded is documented "
    "to halt test processing and is not generated",
    "handlers inserted into exception_handlers at run time persist by design and are not generated here",
]


def expand(case):
    if "triple" in case:
        t = case["triple"]
        return progen.triple_program(t["su"], t["te"], t["td"], t["cl"])
    if "site" in case:
        return site_program(**case["site"])
    return case["prog"]


SITES = ["su_pre", "su", "test", "td_pre", "td", "in_cleanup"]


def site_program(site1, beh1, site2, beh2, body):
    tok = progen.Tok()
    p = {"su_pre": [], "su": [], "test": [], "td_pre": [], "td": []}

    def place(site, cid, beh):
        act = ["cleanup", cid, progen.beh_actions(beh, tok, cid)]
        if site == "in_cleanup":
            p["su"].append(["cleanup", cid + "outer", [act]])
        else:
            p[site].append(act)
    place(site1, "c1", beh1)
    place(site2, "c2", beh2)
    p["test"] += progen.beh_actions(body, tok, "test")
    return p


def stack_monitor(ctx, env, program, detail):
    """Online cleanup-stack model over the execution log."""
    stack = []
    ran = {}
    first_undo_seq = None
    top_level_fx = {e[2] for e in env.tags("fixture_used")}
    for e in env.events:
        seq, tag = e[0], e[1]
        if tag == "reg":
            stack.append(("c", e[2]))
        elif tag == "patch":
            stack.append(("p", e[2], e[3], e[4]))
        elif tag == "fixture_used":
            stack.append(("f", e[2]))
        elif tag == "cleanup_enter":
            first_undo_seq = first_undo_seq or seq
            ran[e[2]] = ran.get(e[2], 0) + 1
            top = stack[-1] if stack else None
            ctx.check(top == ("c", e[2]), "cleanup.lifo-top-of-stack",
                      lambda: {"ran": e[2], "top": top, "stack": list(stack), **detail()})
            for i in range(len(stack) - 1, -1, -1):      # (the LAST such entry: the same cleanup may be registered twice)
                if stack[i] == ("c", e[2]):
                    del stack[i]
                    break
        elif tag in ("scratch_set", "scratch_del") and not e[-1]:
            first_undo_seq = first_undo_seq or seq
            attr = e[2]
            top = stack[-1] if stack else None
            ok = top is not None and top[0] == "p" and top[1] == attr
            ctx.check(ok, "cleanup.lifo-top-of-stack",
                      lambda: {"undo of": attr, "top": top, "stack": list(stack), **detail()})
            if ok:
                had, old = top[2], top[3]
                if tag == "scratch_set":
                    ctx.check(had and (e[3] is old or (type(e[3]) in (int, str, bool, type(None)) and type(old) is type(e[3])
                                                       and e[3] == old)),
                              "patch.undo-restores-previous-value",
                              lambda: {"attr": attr, "restored": e[3], "previous": old, "had": had})
                else:
                    ctx.check(not had, "patch.undo-deletes-only-new-attributes",
                              lambda: {"attr": attr, "had": had, "previous": old})
                stack.pop()
            else:
                for i in range(len(stack) - 1, -1, -1):
                    if stack[i][0] == "p" and stack[i][1] == attr:
                        del stack[i]
                        break
        elif tag == "fixture_cleanup" and e[2] in top_level_fx:
            first_undo_seq = first_undo_seq or seq
            top = stack[-1] if stack else None
            ctx.check(top == ("f", e[2]), "cleanup.lifo-top-of-stack",
                      lambda: {"fixture cleanUp": e[2], "top": top, "stack": list(stack), **detail()})
            if ("f", e[2]) in stack:
                stack.remove(("f", e[2]))
    ctx.check(not stack, "cleanup.each-exactly-once",
              lambda: {"never undone": list(stack), **detail()})
    regs = [e[2] for e in env.tags("reg")]
    ctx.check(all(ran.get(c, 0) == regs.count(c) for c in regs) and set(ran) <= set(regs),
              "cleanup.each-exactly-once", lambda: {"registered": regs, "ran": ran, **detail()})
    # fixtures: every fixture whose _setUp started is cleaned up exactly once
    started = [e[2] for e in env.tags("fixture_setup")]
    cleaned = [e[2] for e in env.tags("fixture_cleanup")]
    ctx.check(sorted(started) == sorted(cleaned), "fixture.cleaned-up-exactly-once",
              lambda: {"setUp": started, "cleanUp": cleaned, **detail()})
    return first_undo_seq


def x_prog(ctx, case):
    program = expand(case)
    env = programs.Env(program)
    breaks = {"TypeError": TypeError, "LookupError": LookupError, "RuntimeError": RuntimeError}.get(case.get("result_breaks"))

    def hook(name, test):
        # a result whose outcome method fails (a reporter with a bug, a full disk): the error leaves run(); the stages
        # and cleanups still ran once each - nothing is run a second time because the RESULT raised
        if breaks is not None and name in recorders.OUTCOMES:
            raise breaks("the result breaks in " + name)
    log = recorders.Log(hook)
    runner = programs.runner_factory_for(case.get("runner"))
    the_case = programs.build_case(program, env, runner)
    initial = {k: (programs.SPECIAL_VALUES.get(v, v) if isinstance(v, str) else v)
               for k, v in program.get("scratch", {}).items()}
    initial["prop"] = "prop-default"

    def same(a, b):
        # (identity first: some initial values have an __eq__ of their own)
        return a.keys() == b.keys() and all(a[k] is b[k] or (type(a[k]) is type(b[k]) and not isinstance(
            a[k], tuple(type(v) for v in programs.SPECIAL_VALUES.values())) and a[k] == b[k]) for k in a)
    histories = []
    nontrivial = False
    for attempt in range(3):
        env.reset_for_rerun()
        del log.events[:]
        run = programs.execute(program, lambda: recorders.ExtRecorder(log), env=env, case=the_case)
        detail = lambda: {"attempt": attempt,  # noqa: E731
                          "log": [e[1:] for e in env.events][:60],
                          "result": log.names(), "propagated": repr(run.propagated)}
        enters = [e[2] for e in env.tags("enter")]
        if programs.is_decor_skip(program):
            ctx.check(not env.events, "stage.decorated-skip-runs-nothing", detail)
        else:
            ctx.check(enters[:1] == ["setUp"] and env.events[0][1:] == ("enter", "setUp"),
                      "stage.setUp-first", detail)
            setup_ok = any(e[2] == "setUp" for e in env.tags("leave")) and \
                program.get("upcall_su", True)
            want = ["setUp", "test", "tearDown"] if setup_ok else ["setUp"]
            ctx.check(enters == want, "stage.test-and-tearDown-iff-setUp-ok",
                      lambda: {"entered": enters, "setUp returned normally": setup_ok, **detail()})
            first_undo = stack_monitor(ctx, env, program, detail)
            last_stage_enter = max([e[0] for e in env.tags("enter")], default=-1)  # (no stage entered: reported above)
            if first_undo is not None:
                ctx.check(first_undo > last_stage_enter, "cleanup.after-tearDown", detail)
                stage_events_after = [e for e in env.events if e[0] > first_undo and
                                      e[1] in ("enter", "leave")]
                ctx.check(not stage_events_after, "cleanup.after-tearDown", detail)
        ctx.check(the_case._cleanups == [], "cleanup.none-left-registered",
                  lambda: {"left": repr(the_case._cleanups), **detail()})
        snap = env.scratch.snapshot()
        if env.tags("patch"):
            ctx.check(same(snap, initial) and all(snap[k] is initial[k] for k in snap if k in initial and k != "prop"),
                      "patch.restored", lambda: {"after": snap, "before": initial, **detail()})
        else:
            ctx.check(same(snap, initial), "scratch.untouched", detail)
        # addOnException handlers registered by a stage stay registered on the instance (they are
        # not cleanups), so their calls are not part of the stage/cleanup sequence compared here
        outcome_details = [sorted((e.payload or {}).get("details") or {}) for e in log.events
                           if e.name in recorders.OUTCOMES]
        histories.append(([e[1:] for e in env.events if not e[1].startswith("onexc_")],
                          log.names(), type(run.propagated).__name__, outcome_details))
        nontrivial = nontrivial or bool(env.raised or env.tags("reg", "patch", "use_fixture"))
    # (by repr: the logged values include objects whose == has no truth value)
    ctx.check(repr(histories[0]) == repr(histories[1]) == repr(histories[2]), "rerun.same-sequence",
              lambda: {"run1": histories[0][1:], "run2": histories[1][1:], "run3": histories[2][1:],
                       "log1": histories[0][0][:40], "log2": histories[1][0][:40]})
    return nontrivial


SUBCHECKS = {"prog": x_prog}

FEATURES = ("setup_returns", "xfail_decor", "bad_fixture_detail", "own_exc", "expect", "force", "decor", "noupcall", "nested_cleanup", "truthy_return", "patch",
            "fixture", "handlers")


def add_escaping_handler(rng, prog):
    """addOnException handler that raises for exceptions of the test method / tearDown only."""
    toks = []
    for stage in ("test", "td_pre", "td"):
        for a in prog.get(stage, []):
            if a[0] in ("raise", "multi"):
                toks += [t for _, t in programs.flatten_tokens(a)]
    if not toks:
        return False
    prog["su"].insert(0, ["onexc_for", "Hesc", toks])
    return True


def x_deferred(ctx, case):
    """Stages and cleanups that return Deferreds (AsynchronousDeferredRunTest on the virtual-time reactor),
    including cleanups registered when a stage's Deferred fires: the same clauses - test and tearDown iff
    setUp completed normally, every registered cleanup exactly once, LIFO, none left registered."""
    from . import c14
    from .. import vreactor
    prog = case["prog"]
    reactor = vreactor.make_reactor()
    stagelog = []
    the_case = c14.build_case(prog, reactor, stagelog)
    log = recorders.Log()
    try:
        the_case.run(recorders.ExtRecorder(log))
        propagated = None
    except BaseException as e:  # noqa
        propagated = e
    m = c14.model(prog)
    if m["kind"] != "ok":
        return False        # timeouts are C14's concern
    entered = [n for k, n, t in stagelog if k == "enter"]
    detail = lambda: {"prog": prog, "entered": entered, "want": m["ran"], "propagated": repr(propagated)}  # noqa
    stages = [n for n in entered if n in ("setUp", "test", "tearDown")]
    ctx.check(stages == [n for n in m["ran"] if n in ("setUp", "test", "tearDown")],
              "stage.test-and-tearDown-iff-setUp-ok", detail)
    ctx.check([n for n in entered if n not in stages] == [n for n in m["ran"] if n not in ("setUp", "test", "tearDown")],
              "cleanup.each-exactly-once", detail)
    left = list(getattr(the_case, "_cleanups", []))
    ctx.check(not left, "cleanup.none-left-registered", lambda: {"left": len(left), **detail()})
    return True


SUBCHECKS["deferred"] = x_deferred


def x_flaky(ctx, case):
    """A test whose first run records a failed expectation (or fails) and whose later runs are clean: runs 2 and 3
    of the same instance repeat each other - and are what a clean run is."""
    program = {"su_pre": [["cleanup", "c1", []]], "su": [], "td": [], "td_pre": [], "scratch": {},
               "test": [["first_run_only", case["first"]]]}
    if case.get("force_attr"):
        program["force_attr"] = case["force_attr"]
    env = programs.Env(program)
    the_case = programs.build_case(program, env, programs.runner_factory_for(case.get("runner")))
    outs = []
    for attempt in range(3):
        log = recorders.Log()
        programs.execute(program, lambda: recorders.ExtRecorder(log), env=env, case=the_case)
        env.reset_for_rerun()
        outs.append([n for n in log.names() if n in recorders.OUTCOMES])
    ctx.check(outs[1] == outs[2] == ["addSuccess"] and outs[0] == [case["want_first"]], "rerun.same-sequence",
              lambda: {"outcomes of three runs (first one flaky)": outs, "case": case})
    return True


SUBCHECKS["flaky"] = x_flaky


def x_docleanups(ctx, case):
    """The inherited unittest entry point: a test that calls self.doCleanups() itself (to release something before
    its last assertions) has every clean-up registered so far run right there, once each, last registered first, with
    the arguments it was registered with; what is registered afterwards runs after tearDown as usual; nothing is left
    registered, and a second run of the instance does the same."""
    import testtools
    from twisted.internet import defer
    ran = []
    runner = programs.runner_factory_for(case.get("runner"))

    class T(testtools.TestCase):
        if runner is not None:
            run_tests_with = runner

        def setUp(self):
            super().setUp()
            for i in range(case["before"]):
                self.addCleanup(ran.append, "early%d" % i) if i % 2 else self.addCleanup(lambda v=None, i=i: ran.append("early%d" % i), v=i)

        def test(self):
            ran.append("body")
            self.doCleanups()
            ran.append("after-doCleanups")
            for i in range(case["after"]):
                self.addCleanup(ran.append, "late%d" % i)

        def tearDown(self):
            ran.append("tearDown")
            super().tearDown()
    t = T("test")
    want = (["body"] + ["early%d" % i for i in reversed(range(case["before"]))] + ["after-doCleanups", "tearDown"]
            + ["late%d" % i for i in reversed(range(case["after"]))])
    for attempt in range(2):
        del ran[:]
        log = recorders.Log()
        try:
            t.run(recorders.ExtRecorder(log))
            raised = None
        except Exception as e:  # noqa
            raised = e
        outs = [n for n in log.names() if n in recorders.OUTCOMES]
        ctx.check(raised is None and ran == want and outs == ["addSuccess"] and t._cleanups == [],
                  "cleanup.each-exactly-once",
                  lambda: {"attempt": attempt, "ran": list(ran), "want": want, "outcomes": outs, "raised": repr(raised),
                           "left registered": repr(t._cleanups), "case": case})
    return True


SUBCHECKS["docleanups"] = x_docleanups


def run(ctx):
    rng = ctx.rng
    n = 0
    for before in (1, 2, 3):
        for after in (0, 1, 2):
            for runner in (None, "sync", "async"):
                if ctx.mine():
                    n += 1
                    ctx.execute("docleanups", {"before": before, "after": after, "runner": runner})
    ctx.note_space("a test calling the inherited doCleanups() itself: 1-3 clean-ups before x 0-2 after x 3 runners, twice", n)
    n = 0
    from . import c14
    for prog in c14.late_cleanup_programs():
        if ctx.mine():
            n += 1
            ctx.execute("deferred", {"prog": prog})
    ctx.note_space("Deferred-returning stages under AsynchronousDeferredRunTest with cleanups registered when a stage "
                   "completes, and setUp failing before a Deferred-returning cleanup", n)
    n = 0
    stride = 1 if not ctx.quick else 5
    for i, t in enumerate(progen.enum_triples()):
        if stride > 1 and (i + ctx.seed) % stride:
            continue
        if ctx.mine():
            n += 1
            ctx.execute("prog", {"triple": t})
    ctx.note_space("9^3 stage behaviours x 10 cleanup variants"
                   + (" (1/%d slice rotated by seed)" % stride if stride > 1 else ""), n, stride == 1)
    n = 0
    behs = progen.BEH9 if not ctx.quick else ["ok", "error", "skip", "kbd", "multi"]
    for s1 in SITES:
        for s2 in SITES:
            for b1 in behs:
                for b2 in behs:
                    for body in ("ok", "fail", "kbd"):
                        if ctx.mine():
                            n += 1
                            ctx.execute("prog", {"site": {"site1": s1, "beh1": b1, "site2": s2,
                                                          "beh2": b2, "body": body}})
    ctx.note_space("2 cleanups x 6 registration sites each x %d behaviours each x 3 test-method "
                   "behaviours" % len(behs), n)
    n = 0
    for force_attr in (None, "class_false"):
        for runner in (None, "sync", "async"):
            for first, want in (([["expect", "<<E1>>", False, []]], "addFailure"), ([["raise", "error", "<<R1>>"]], "addError"),
                                ([["expect", "<<E1>>", False, []], ["expect", "<<E2>>", True, []]], "addFailure")):
                if ctx.mine():
                    n += 1
                    ctx.execute("flaky", {"first": first, "want_first": want, "force_attr": force_attr, "runner": runner})
    ctx.note_space("flaky first run (failed expectation / error) then two clean runs of the same instance: 2 x 3 runners "
                   "x 3", n)
    # a cleanup raising an error whose message holds a lone surrogate, among other cleanups and a patch
    n = 0
    for where in ("c_first", "c_mid", "su", "test", "td"):
        for runner in (None, "sync", "async"):
            if not ctx.mine():
                continue
            n += 1
            r = ["raise", "surrogate", "<<S1>>"]
            prog = {"scratch": {"a": 0}, "su_pre": [["cleanup", "c1", [r] if where == "c_first" else []],
                                                    ["patch", "a", "patched"],
                                                    ["cleanup", "c2", [r] if where == "c_mid" else []],
                                                    ["cleanup", "c3", []]],
                    "su": [], "test": [["cleanup", "c4", []]], "td_pre": [], "td": [["cleanup", "c5", []]]}
            if where in ("su", "test", "td"):
                prog[where].append(r)
            ctx.execute("prog", {"prog": prog, "runner": runner} if runner else {"prog": prog})
    ctx.note_space("an error whose message holds a lone surrogate, raised at 5 places among cleanups and a patch x 3 "
                   "runners", n)
    # exceptions deriving from BaseException directly (asyncio.CancelledError, GeneratorExit style), at every
    # stage, with cleanups registered before and around them, a patch and keyword-argument cleanups; every runner
    n = 0
    for stage in ("su", "test", "td", "c_first", "c_last"):
        for kind in ("basedirect", "kbdsub", "exit"):
            for runner in (None, "sync", "async"):
                if not ctx.mine():
                    continue
                n += 1
                r = ["raise", kind, "<<B1>>"]
                prog = {"scratch": {"a": 0}, "su_pre": [["cleanup", "c1", [r] if stage == "c_first" else []],
                                                        ["patch", "a", "patched"],
                                                        ["cleanup", "c2", [], "kw"]],
                        "su": [], "test": [["cleanup", "c3", []]], "td_pre": [],
                        "td": [["cleanup", "c4", [r] if stage == "c_last" else []]]}
                if stage in ("su", "test", "td"):
                    prog[stage].append(r)
                ctx.execute("prog", {"prog": prog, "runner": runner} if runner else {"prog": prog})
    ctx.note_space("BaseException-derived raise (3 kinds) at 5 places among 4 cleanups and a patch x 3 runners", n)
    ctx.notes["random_cases"] = True
    for i in range(ctx.scale(1500, 150000)):
        if ctx.out_of_time():
            break
        prog = progen.random_program(rng, max_cleanups=6, features=FEATURES, p_raise=0.4)
        if rng.random() < 0.25 and not prog.get("decor"):
            if add_escaping_handler(rng, prog):
                ctx.count("programs-with-escaping-handler")
        case = {"prog": prog}
        r = rng.random()
        if r < 0.15:
            case["runner"] = "sync"
        elif r < 0.3 and not prog.get("decor"):
            case["runner"] = "async"
        if rng.random() < 0.06:
            case["result_breaks"] = rng.choice(["TypeError", "TypeError", "LookupError", "RuntimeError"])
        ctx.execute("prog", case)
