"""C03 - the reported outcome is sound: success means nothing raised; failures never masked."""

import itertools
import unittest

from .. import progen, programs, recorders

PROPERTY = "C03"
LEVEL = "fault_enumeration"
RULE = (
    "a case is a test program run against an extended recorder and against a real "
    "testtools.TestResult.  Programs: all single (kind, stage) raises, all ordered kind pairs and "
    "triples over {failure, error, skip, expected failure, unexpected success, KeyboardInterrupt} "
    "placed on every 2- and 3-subset of the stages {setUp, test, tearDown, cleanup1, cleanup2}, "
    "programs with custom exception classes and user-inserted exception_handlers (front / middle, "
    "before the run and during it), subclasses of the signal exceptions, expectThat mismatches and "
    "force_failure in every stage, and random programs.  The oracle is the set of admissible "
    "outcomes computed from the exceptions the program actually raised (execution log) and the "
    "handler table rebuilt from the statement.  Distinct = canonical JSON of the program; "
    "non-trivial = at least one exception raised or expectation failed."
)
REQUIRED = {
    "mon:handlers.user-inserted-take-precedence": 8,
    "mon:unclaimed.last-resort-then-reraised": 8,
    "mon:single.outcome-is-mapped-one": 60,
    "mon:multi.outcome-admissible": 300,
    "mon:multi.failure-never-downgraded": 300,
    "mon:success-only-if-clean": 300,
    "mon:real.wasSuccessful-false-after-failure": 300,
}
ASSUMPTIONS = [
    "the exception_handlers table of the statement is: skipException, failureException, expected "
    "failure, unexpected success, Exception (error), user insertions at the positions they were made",
    "which of several failing exceptions is reported is left open by the property; any is accepted",
]

STAGES = ["su", "test", "td", "c1", "c2"]
KINDS6 = ["fail", "error", "skip", "xfail", "uxs", "kbd"]


def placed_program(placements, extra=None):
    """placements: list of [stage, kind]."""
    tok = progen.Tok()
    p = {"su_pre": [["cleanup", "c1", []], ["cleanup", "c2", []]],
         "su": [], "test": [], "td": [], "td_pre": []}
    for stage, kind in placements:
        act = ["raise", kind, tok(kind[:2].upper())]
        if stage in ("c1", "c2"):
            idx = 0 if stage == "c1" else 1
            p["su_pre"][idx][2].append(act)
        else:
            p[stage].append(act)
    if extra:
        p.update(extra)
    return p


def expand(case):
    if "placed" in case:
        return placed_program(case["placed"], case.get("extra"))
    return case["prog"]


def x_twin(ctx, case):
    """Two instances of ONE TestCase class with different exception_handlers: each follows its own
    table (nothing resolved for the first may be reused for the second)."""
    program = expand(case)
    env = programs.Env(program)
    first = programs.build_case(program, env)
    log = recorders.Log()
    programs.execute(program, lambda: recorders.ExtRecorder(log), env=env, case=first)
    env.reset_for_rerun()
    second = type(first)("test")
    for exc_name, report, position in case["twin_handlers"]:
        programs._insert_handler(env, second, exc_name, report, position)
    log2 = recorders.Log()
    programs.execute(program, lambda: recorders.ExtRecorder(log2), env=env, case=second)
    names = [n for n in log2.names() if n in recorders.OUTCOMES]
    raised = list(env.raised)
    if len(names) != 1 or len(raised) != 1:
        return False
    want = programs.expected_outcome(raised[0][2], second, env) or "addError"
    ctx.check(names[0] == want, "single.outcome-is-mapped-one",
              lambda: {"twin": True, "got": names[0], "want": want, "first instance handlers": program.get("handlers"),
                       "second instance handlers": case["twin_handlers"], "raised": raised[0][:2]})
    return True


def _known_handler_case(env, raised, outcome):
    """The recorded finding, exactly: the outcome was reported by a USER-INSERTED handler, for a custom
    exception that was caught AFTER every failure / error of the run (RunTest ranks a claimed custom
    exception with failures and errors, and among equals the most recent one decides; it cannot know
    that the user's handler will report something benign).  A custom exception caught BEFORE a failure
    must not win - that is not the finding and is reported."""
    for e in env.tags("user_handler"):
        if programs.REPORT_OUTCOME[e[3]] != outcome:
            continue
        tok = e[4] if len(e) > 4 else None
        idx = [i for i, (k, t, _) in enumerate(raised) if t == tok and k.startswith("custom:")]
        failing_idx = [i for i, (k, t, exc) in enumerate(raised)
                       if not (t == tok and k.startswith("custom:"))
                       and (programs.expected_outcome(exc, env.case_for_oracle, env) or "addError") in ("addError", "addFailure")]
        if idx and all(max(idx) > j for j in failing_idx):
            return True
    return False


def x_prog(ctx, case):
    program = expand(case)
    log = recorders.Log()
    runner = programs.runner_factory_for(case.get("runner"))
    run = programs.execute(program, lambda: recorders.ExtRecorder(log), runner_factory=runner)
    env, the_case = run.env, run.case
    env.case_for_oracle = the_case
    names = [n for n in log.names() if n in recorders.OUTCOMES]
    raised = list(env.raised)
    forced = bool(env.tags("expect_mismatch", "force")) or bool(program.get("force_attr"))
    implicit_error = False
    if not programs.is_decor_skip(program):
        # a missing upcall is reported by the framework as an error of that stage
        if not program.get("upcall_su", True) and any(e[2] == "setUp" for e in env.tags("leave")):
            implicit_error = True
        if not program.get("upcall_td", True) and any(e[2] == "tearDown" for e in env.tags("leave")):
            implicit_error = True
    detail = lambda: {"outcomes": names, "raised": [(k, t) for k, t, _ in raised],  # noqa: E731
                      "forced": forced, "propagated": repr(run.propagated),
                      "handlers_inserted": [e[2:] for e in env.tags("handler_inserted")]}
    if len(names) != 1:
        ctx.count("not-exactly-one-outcome (C01's concern)")
        # ... but a success reported although something raised is C03's concern whatever else follows
        if "addSuccess" in names and (raised or forced):
            ctx.check(False, "success-only-if-clean", detail)
        if not names and raised and not programs.is_decor_skip(program):
            # no outcome at all: whatever C01 says about that, a raised failure / error must not leave
            # the run looking successful
            mapped0 = [programs.expected_outcome(exc, the_case, env) or "addError" for _, _, exc in raised]
            if any(m in ("addError", "addFailure") for m in mapped0):
                real0 = __import__("testtools").TestResult()
                try:
                    programs.execute(program, lambda: real0, runner_factory=programs.runner_factory_for(case.get("runner")))
                except BaseException:  # noqa
                    pass
                ctx.check(not real0.wasSuccessful(), "real.wasSuccessful-false-after-failure",
                          lambda: {"no outcome reported": True, **detail()})
        return bool(raised)
    outcome = names[0]
    if programs.is_decor_skip(program):
        ctx.check(outcome == "addSkip", "decorated-skip.reported-as-skip", detail)
        return True
    # (expectFailure(reason, predicate) with a predicate raising an unrelated error: whatever object leaves
    # expectFailure, the statement's answer is "that error")
    by_kind = {"xfail_err": "addError"}
    mapped = [by_kind.get(k) or programs.expected_outcome(exc, the_case, env) or "addError" for k, _, exc in raised]
    if implicit_error:
        mapped.append("addError")
    if forced:
        # the runner raises its forced failure as an AssertionError, last
        mapped.append(programs.expected_outcome(AssertionError("forced"), the_case, env))
    clean = not mapped
    # (1) success only if nothing raised, no expectation failed, force_failure unset
    ctx.check((outcome == "addSuccess") == clean if clean else outcome != "addSuccess",
              "success-only-if-clean", detail)
    if clean:
        return False
    # (2) exactly one exception: the outcome its type maps to
    if len(mapped) == 1:
        ctx.check(outcome == mapped[0], "single.outcome-is-mapped-one",
                  lambda: {"expected": mapped[0], **detail()})
    else:
        adm = set(mapped)
        ctx.check(outcome in adm, "multi.outcome-admissible",
                  lambda: {"admissible": sorted(adm), **detail()})
    # (3) a failure or error anywhere => the outcome makes the run unsuccessful
    failing = [m for m in mapped if m in ("addError", "addFailure")]
    if failing:
        mech = None
        if outcome in ("addSkip", "addExpectedFailure"):
            # If the outcome was reported by a *user-inserted* handler (the harness' handlers log
            # their invocation), RunTest had no way to know that this handler is benign: recorded
            # as a known finding, keyed by exactly this mechanism.
            if _known_handler_case(env, raised, outcome):
                mech = "user-handler-benign-over-failure"
        ctx.check(outcome in programs.UNSUCCESSFUL, "multi.failure-never-downgraded",
                  lambda: {"failing raised": failing, **detail()}, mechanism=mech)
    # (4) user handlers were consulted in list order: when a custom exception decided the
    #     outcome, the handler called is the first matching one
    calls = env.tags("user_handler")
    ctx.check(len(calls) <= 1, "handlers.at-most-one-called", detail)
    # (5) a real TestResult fed by the same program is unsuccessful
    real = __import__("testtools").TestResult()
    run2 = programs.execute(program, lambda: real,
                            runner_factory=programs.runner_factory_for(case.get("runner")))
    run2.env.case_for_oracle = run2.case
    if failing or "addUnexpectedSuccess" in mapped and not [m for m in mapped if m != "addUnexpectedSuccess"]:
        mech = "user-handler-benign-over-failure" if (
            failing and outcome in ("addSkip", "addExpectedFailure")
            and _known_handler_case(run2.env, list(run2.env.raised), outcome)
        ) else None
        ctx.check(not real.wasSuccessful(), "real.wasSuccessful-false-after-failure",
                  lambda: {"errors": len(real.errors), "failures": len(real.failures), **detail()},
                  mechanism=mech)
    return True


def x_xfail_decor(ctx, case):
    """A test method decorated with unittest.expectedFailure, the same instance run several times:
    every run maps 'the method passed' to unexpected success and 'the method raised' to expected failure."""
    import testtools
    tok = progen.Tok()
    program = {"su_pre": [], "su": [], "td": [], "td_pre": [], "decor": "stdlib_expectedFailure",
               "test": [] if case["test"] == "ok" else [["raise", case["test"], tok("X")]]}
    want = "addUnexpectedSuccess" if case["test"] == "ok" else "addExpectedFailure"
    env = programs.Env(program)
    the_case = programs.build_case(program, env)
    for i in range(case["runs"]):
        log = recorders.Log()
        real = testtools.TestResult()
        target = testtools.MultiTestResult(recorders.ExtRecorder(log), real)
        programs.execute(program, lambda: target, env=env, case=the_case)
        env.reset_for_rerun()
        names = [n for n in log.names() if n in recorders.OUTCOMES]
        ctx.check(names == [want], "single.outcome-is-mapped-one",
                  lambda: {"@expectedFailure test": case["test"], "run": i + 1, "got": names, "want": want})
        ctx.check(real.wasSuccessful() == (want == "addExpectedFailure"), "real.wasSuccessful-false-after-failure",
                  lambda: {"@expectedFailure test": case["test"], "run": i + 1, "wasSuccessful": real.wasSuccessful()})
    return True


def x_forced_rerun(ctx, case):
    """force_failure set by the USER (on the class or on the instance, before run()) stays set: every run
    of the instance is unsuccessful, whatever else happened in earlier runs (failed expectations, raises)."""
    tok = progen.Tok()
    first = {"expect": [["expect", tok("E"), False, []]], "expect_ok": [["expect", tok("E"), True, []]],
             "fail": [["raise", "fail", tok("F")]], "nothing": []}[case["first"]]
    program = {"su_pre": [], "su": [], "td": [], "td_pre": [], "force_attr": case["where"],
               "test": [["first_run_only", first]] if first else []}
    env = programs.Env(program)
    the_case = programs.build_case(program, env)
    outs = []
    for i in range(case["runs"]):
        log = recorders.Log()
        programs.execute(program, lambda: recorders.ExtRecorder(log), env=env, case=the_case)
        env.reset_for_rerun()
        outs.append([n for n in log.names() if n in recorders.OUTCOMES])
    ctx.check(all(o == ["addFailure"] for o in outs), "success-only-if-clean",
              lambda: {"force_failure set by the user on": case["where"], "first run does": case["first"],
                       "outcomes of the runs": outs})
    return True


def x_runtest_reuse(ctx, case):
    """One RunTest object used for several runs (RunTest(case, handlers).run(result) is public API, and
    a run_tests_with factory may hand out the runner it made earlier): each run's outcome is decided by
    what was raised in THAT run."""
    import testtools
    tok = progen.Tok()
    every = [["raise", case["every_run"], tok("S")]] if case["every_run"] else []
    program = {"su_pre": [["cleanup", "c1", [["first_run_only", [["raise", k, tok("C")] for k in case["first_cleanup"]]]]]],
               "su": [], "td": [], "td_pre": [],
               "test": [["first_run_only", [["raise", case["first_test"], tok("T")]]]] + every}
    env = programs.Env(program)
    the_case = programs.build_case(program, env)
    rt = testtools.RunTest(the_case, the_case.exception_handlers, last_resort=the_case._report_error)
    outs = []
    for i in range(3):
        log = recorders.Log()
        the_case._reset()
        try:
            rt.run(recorders.ExtRecorder(log))
        except BaseException as e:  # noqa
            log.add("propagated", None, {"exc": repr(e)})
        env.reset_for_rerun()
        outs.append([n for n in log.names() if n in recorders.OUTCOMES or n == "propagated"])
    want_later = [{"skip": "addSkip", "fail": "addFailure", None: "addSuccess"}[case["every_run"]]]
    ctx.check(outs[1] == want_later and outs[2] == want_later, "single.outcome-is-mapped-one",
              lambda: {"one RunTest, three runs": outs, "want for runs 2 and 3": want_later, "case": case})
    return True


def x_handlerless(ctx, case):
    """RunTest(case) made without handlers (its ``handlers`` list "can be modified later"): a handler the user
    inserted into ONE such runner takes precedence there, and is nobody else's - a second handler-less runner treats
    the same exception as unclaimed (last_resort, then re-raised)."""
    import testtools
    from testtools.runtest import RunTest

    class NotReady(Exception):
        pass
    exc_class = {"custom": NotReady, "value": ValueError}[case["exc"]]

    class One(testtools.TestCase):
        def test(self):
            raise exc_class("first")

    class Two(testtools.TestCase):
        def test(self):
            raise exc_class("second")
    report = {"skip": lambda c, r, e: r.addSkip(c, details={}), "fail": lambda c, r, e: r.addFailure(c, details={})}[case["as"]]
    first = RunTest(One("test")) if case["made"] == "no-arg" else RunTest(One("test"), [])
    if case["how"] == "insert":
        first.handlers.insert(0, (exc_class, report))
    else:
        first.handlers.append((exc_class, report))
    log = recorders.Log()
    first.run(recorders.ExtRecorder(log))
    outs = [n for n in log.names() if n in recorders.OUTCOMES]
    want = {"skip": "addSkip", "fail": "addFailure"}[case["as"]]
    ctx.check(outs == [want], "handlers.user-inserted-take-precedence",
              lambda: {"a handler-less RunTest, then handlers.%s(...)" % case["how"]: outs, "want": want, "case": case})
    calls = []

    def last_resort(c, r, e):
        calls.append(e)
        r.addError(c, details={})
    second = RunTest(Two("test"), last_resort=last_resort)
    log2 = recorders.Log()
    propagated = None
    try:
        second.run(recorders.ExtRecorder(log2))
    except BaseException as e:  # noqa
        propagated = e
    outs2 = [n for n in log2.names() if n in recorders.OUTCOMES]
    ctx.check(outs2 == ["addError"] and len(calls) == 1 and isinstance(propagated, exc_class),
              "unclaimed.last-resort-then-reraised",
              lambda: {"second handler-less RunTest": outs2, "last_resort calls": len(calls),
                       "propagated": repr(propagated), "case": case})
    return True


def x_deferred_forms(ctx, case):
    """The Deferred runners: what a stage hands back in the ways Twisted code does - an `async def` stage, a
    returned Failure, a Deferred subclass, an expectation failing after an earlier stage waited on an unfired
    Deferred - is mapped like the same thing raised directly."""
    import testtools
    from twisted.internet import defer
    from twisted.python.failure import Failure
    from testtools.twistedsupport import SynchronousDeferredRunTest, AsynchronousDeferredRunTest
    from testtools.matchers import Equals
    from .. import vreactor
    kind, shape, stage, runner = case["kind"], case["shape"], case["stage"], case["runner"]
    reactor = vreactor.make_reactor()
    factory = SynchronousDeferredRunTest if runner == "sync" else \
        AsynchronousDeferredRunTest.make_factory(reactor=reactor, timeout=30, store_twisted_logs=False)

    def make_exc():
        return {"fail": AssertionError("F"), "error": ValueError("E"), "skip": unittest.SkipTest("S")}[kind]

    def behave(self):
        if shape == "coroutine":
            async def co():
                if kind == "expect":
                    self.expectThat(1, Equals(2))
                    return None
                raise make_exc()
            return co()
        if shape == "returned_failure":
            try:
                raise make_exc()
            except Exception:
                return Failure()
        if shape == "expect_after_wait":
            self.expectThat(1, Equals(2))
            return None
        raise AssertionError(shape)

    class T(testtools.TestCase):
        run_tests_with = factory

        def setUp(self):
            super().setUp()
            if stage == "cleanup":
                self.addCleanup(behave, self)
            if shape == "expect_after_wait":
                d = defer.Deferred()            # an earlier stage waits on a Deferred that fires later
                reactor.callLater(0.5, d.callback, None)
                return d
            if stage == "setUp":
                return behave(self)

        def test(self):
            if stage == "test":
                return behave(self)

        def tearDown(self):
            super().tearDown()
            if stage == "tearDown":
                return behave(self)
    log = recorders.Log()
    propagated = None
    try:
        T("test").run(recorders.ExtRecorder(log))
    except BaseException as e:  # noqa
        propagated = e
    outs = [n for n in log.names() if n in recorders.OUTCOMES]
    want = {"fail": "addFailure", "error": "addError", "skip": "addSkip", "expect": "addFailure"}[kind]
    ctx.check(outs == [want] and propagated is None, "single.outcome-is-mapped-one",
              lambda: {"case": case, "got": outs, "want": want, "propagated": repr(propagated)})
    return True


SUBCHECKS = {"prog": x_prog, "twin": x_twin, "xfail_decor": x_xfail_decor, "forced_rerun": x_forced_rerun,
             "runtest_reuse": x_runtest_reuse, "handlerless": x_handlerless, "deferred_forms": x_deferred_forms}

FEATURES = ("own_exc", "expect", "force", "decor", "noupcall", "nested_cleanup", "handlers", "late_handler",
            "truthy_return", "base_handler", "eq_exc")
ALL_KINDS = ["fail", "error", "skip", "xfail", "uxs", "kbd", "exit", "kbdsub", "exitsub", "basedirect", "genexit", "xfail_err", "skip_empty", "skip2", "unhashable", "skipsub", "surrogate",
             "failsub", "mismatch"]


def run(ctx):
    rng = ctx.rng
    n = 0
    for stage in STAGES:
        for kind in ALL_KINDS:
            if ctx.mine():
                n += 1
                ctx.execute("prog", {"placed": [[stage, kind]]})
    ctx.note_space("single raise: 5 stages x 17 kinds", n)
    n = 0
    for stage in STAGES:
        for other in (None, "fail", "skip"):
            if ctx.mine():
                n += 1
                placed = [[stage, "custom:CustomFalsy"]]
                if other:
                    placed.append([[s2 for s2 in STAGES if s2 != stage][0], other])
                ctx.execute("prog", {"placed": placed})
    ctx.note_space("an exception object that is falsy (defines __len__), at each stage, alone / with a failure / "
                   "with a skip", n)
    n = 0
    for exc in ("CustomA", "CustomBase"):
        for report in ("skip", "xfail", "failure", "error"):
            for i, s1 in enumerate(STAGES):
                for s2 in STAGES[i + 1:]:
                    for first_custom in (True, False):
                        for other in ("fail", "error"):
                            if ctx.mine():
                                n += 1
                                placed = [[s1, "custom:" + exc], [s2, other]] if first_custom else \
                                    [[s1, other], [s2, "custom:" + exc]]
                                ctx.execute("prog", {"placed": placed, "extra": {"handlers": [[exc, report, 0]]}})
    ctx.note_space("a custom exception (Exception- and BaseException-derived) with a user handler reporting skip / "
                   "xfail / failure / error, before or after a failure / error: 2 x 4 x 10 stage pairs x 2 x 2", n)
    n = 0
    for runner in ("sync", "async"):
        for stage in ("setUp", "test", "tearDown", "cleanup"):
            for shape in ("coroutine", "returned_failure"):
                for kind in ("fail", "error", "skip") + (("expect",) if shape == "coroutine" else ()):
                    if ctx.mine():
                        n += 1
                        ctx.execute("deferred_forms", {"runner": runner, "stage": stage, "shape": shape, "kind": kind})
    for stage in ("test", "tearDown", "cleanup"):
        if ctx.mine():
            n += 1
            ctx.execute("deferred_forms", {"runner": "async", "stage": stage, "shape": "expect_after_wait", "kind": "expect"})
    ctx.note_space("Deferred runners: async-def stages and returned Failures (2 runners x 4 stages x 7), an expectation "
                   "failing after setUp waited on an unfired Deferred (3)", n)
    n = 0
    for i, s1 in enumerate(STAGES):
        for s2 in STAGES[i + 1:]:
            for first in ("skip", "xfail"):
                if ctx.mine():
                    n += 1
                    prog = placed_program([[s1, first], [s2, "eqany"]])
                    # the later error compares equal (by value) to the earlier, benign exception
                    for stage in ("su_pre", "su", "test", "td"):
                        for a in prog[stage]:
                            for b in ([a] if a[0] == "raise" else a[2] if a[0] == "cleanup" else []):
                                if b[0] == "raise":
                                    b[2] = "<<SAME>>"
                    ctx.execute("prog", {"prog": prog})
    ctx.note_space("a skip / expected failure, then an error whose class compares by value and is == the earlier "
                   "exception: 10 stage pairs x 2", n)
    n = 0
    for first_test in ("fail", "error", "skip"):
        for first_cleanup in (["error"], ["fail", "error"], []):
            for every in (None, "skip", "fail"):
                if ctx.mine():
                    n += 1
                    ctx.execute("runtest_reuse", {"first_test": first_test, "first_cleanup": first_cleanup,
                                                  "every_run": every})
    ctx.note_space("one RunTest object run three times: first run raises from test and cleanup (3 x 3), every run "
                   "raises nothing / a skip / a failure", n)
    n = 0
    for exc in ("custom", "value"):
        for as_ in ("skip", "fail"):
            for made in ("no-arg", "empty-list"):
                for how in ("insert", "append"):
                    if ctx.mine():
                        n += 1
                        ctx.execute("handlerless", {"exc": exc, "as": as_, "made": made, "how": how})
    ctx.note_space("a RunTest made without handlers gets one inserted, then a second handler-less RunTest meets the same "
                   "exception: 2 exception classes x 2 reports x 2 ways of making it x insert / append", n)
    n = 0
    for where in ("instance", "class"):
        for first in ("expect", "expect_ok", "fail", "nothing"):
            for runs in (1, 2, 3):
                if ctx.mine():
                    n += 1
                    ctx.execute("forced_rerun", {"where": where, "first": first, "runs": runs})
    ctx.note_space("user-set force_failure (class / instance) x what the first run does (4) x 1..3 runs", n)
    n = 0
    for beh in ("ok", "fail", "error", "failsub", "mismatch", "skip"):
        for runs in (1, 2, 3):
            if ctx.mine():
                n += 1
                ctx.execute("xfail_decor", {"test": beh, "runs": runs})
    ctx.note_space("@unittest.expectedFailure test method x 6 behaviours x 1..3 runs of the same instance", n)
    n = 0
    for stages in itertools.combinations(STAGES, 2):
        for kinds in itertools.product(KINDS6, repeat=2):
            if ctx.mine():
                n += 1
                ctx.execute("prog", {"placed": [list(x) for x in zip(stages, kinds)]})
    ctx.note_space("ordered kind pairs on every 2-subset of stages: 10 x 36", n)
    n = 0
    for own in ("own_skip", "own_fail"):
        for stages in itertools.combinations(STAGES, 2):
            for kinds in itertools.product(["fail", "error", "skip", "xfail", "uxs"], repeat=2):
                if ctx.mine():
                    n += 1
                    ctx.execute("prog", {"placed": [list(x) for x in zip(stages, kinds)],
                                         "extra": {own: True}})
    ctx.note_space("the same pairs on TestCases whose skipException / failureException is an "
                   "unrelated Exception subclass: 2 x 10 x 25", n)
    n = 0
    stride = 3 if ctx.quick else 1
    for i, (stages, kinds) in enumerate(itertools.product(itertools.combinations(STAGES, 3),
                                                          itertools.product(KINDS6, repeat=3))):
        if stride > 1 and (i + ctx.seed) % stride:
            continue
        if ctx.mine():
            n += 1
            ctx.execute("prog", {"placed": [list(x) for x in zip(stages, kinds)]})
    ctx.note_space("ordered kind triples on every 3-subset of stages: 10 x 216"
                   + (" (1/3 slice rotated by seed)" if stride > 1 else ""), n, stride == 1)
    # expectation / force_failure in each stage, alone and with one raise elsewhere
    n = 0
    for fstage in ["su", "test", "td", "c1"]:
        for how in (["expect", "E1", False, []], ["force"]):
            for other in [None] + [[s, k] for s in STAGES for k in ("skip", "xfail", "uxs", "error")]:
                if ctx.mine():
                    n += 1
                    p = placed_program([other] if other else [])
                    target = p["su_pre"][0][2] if fstage == "c1" else p[fstage]
                    target.insert(0, list(how))
                    ctx.execute("prog", {"prog": p})
    ctx.note_space("expectThat mismatch / force_failure in each stage x one benign or failing raise", n)
    n = 0
    for how in ("class", "instance"):
        for other in [None] + [[s, k] for s in STAGES for k in ("skip", "xfail", "uxs", "error")]:
            if ctx.mine():
                n += 1
                ctx.execute("prog", {"placed": [other] if other else [], "extra": {"force_attr": how}})
    ctx.note_space("force_failure set outside the stages (class attribute / on the instance before run()) "
                   "x one benign or failing raise", n)
    # custom exception classes with user-inserted handlers
    n = 0
    for report in ["skip", "failure", "error", "xfail", "uxs"]:
        for pos in [0, 1, 2, 4]:
            for exc in ["CustomA", "CustomB", "CustomC"]:
                for other in [None, ["td", "fail"], ["c1", "skip"], ["test", "error"]]:
                    for raised_kind in ["custom:CustomA", "custom:CustomB", "custom:CustomC"]:
                        if ctx.mine():
                            n += 1
                            placements = [["su" if other and other[0] != "su" else "test",
                                           raised_kind]]
                            if other:
                                placements.append(other)
                            ctx.execute("prog", {"placed": placements,
                                                 "extra": {"handlers": [[exc, report, pos]]}})
    ctx.note_space("one user handler (5 reports x 4 positions x 3 classes) x 3 raised custom classes "
                   "x {alone, + failure, + skip, + error}", n)
    n = 0
    for r1 in ["skip", "failure", "error", "xfail", "uxs"]:
        for r2 in [None, "skip", "failure", "error"]:
            for exc in ["CustomA", "CustomB", "CustomC"]:
                for stage in ("test", "c1"):
                    if ctx.mine():
                        n += 1
                        ctx.execute("twin", {"placed": [[stage, "custom:" + exc]],
                                             "extra": {"handlers": [[exc, r1, 0]]},
                                             "twin_handlers": [[exc, r2, 0]] if r2 else []})
    ctx.note_space("two instances of one class: first with a handler (5 reports), second with another "
                   "handler or none, 3 classes x 2 stages", n)
    # what an exception class means depends on the test it is raised in (its skipException, its handler table): the
    # same class first seen in a test where it is a skip / unclaimed, then in one where it is an error / claimed
    n = 0
    for s1, s2 in [("su", "td"), ("test", "td"), ("test", "c1"), ("td", "c1"), ("su", "c1")]:
        for rep in range(2):
            if ctx.mine():
                n += 1
                ctx.execute("prog", {"placed": [[s1, "skipsub"]]})
                ctx.execute("prog", {"placed": [[s1, "skipsub"], [s2, "skip"]], "extra": {"own_skip": True}})
                ctx.execute("prog", {"placed": [[s1, "custom:CustomBase"]]})
                ctx.execute("prog", {"placed": [[s1, "custom:CustomBase"], [s2, "error"]],
                                     "extra": {"handlers": [["CustomBase", "skip", 0]]}})
                ctx.execute("prog", {"placed": [[s1, "custom:CustomA"], [s2, "skip"]]})
                ctx.execute("prog", {"placed": [[s1, "custom:CustomA"], [s2, "skip"]],
                                     "extra": {"handlers": [["CustomA", "skip", 0]]}})
    ctx.note_space("one exception class, first where it is benign / unclaimed, then where it is not (own skipException, a "
                   "user handler): 5 stage pairs x 6 programs in that order", n)
    ctx.notes["random_cases"] = True
    for i in range(ctx.scale(2500, 250000)):
        if ctx.out_of_time():
            break
        prog = progen.random_program(rng, features=FEATURES, p_raise=0.45, kinds=ALL_KINDS)
        case = {"prog": prog}
        if rng.random() < 0.15:
            prog["rtw"] = True      # @run_test_with(RunTest) on the test method: the runner is made through that door
        r = rng.random()
        if r < 0.15:
            case["runner"] = "sync"
        elif r < 0.3 and not prog.get("decor"):
            case["runner"] = "async"
        ctx.execute("prog", case)
