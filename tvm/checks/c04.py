"""C04 - run verdict, summary, exit status and stop control are consistent with the outcomes."""

import io
import os
import re
import shutil
import subprocess
import sys
import tempfile
import threading
import types
import unittest

from .. import core, recorders

PROPERTY = "C04"
LEVEL = "exploration"
RULE = (
    "a case is (result stack, failfast mode, history).  Stacks: TestResult, TextTestResult, "
    "MultiTestResult (2-3 leaves, nested, incl. a Twisted-style leaf), ThreadsafeForwardingResult, "
    "ExtendedToOriginalDecorator / TestResultDecorator / Tagger over those, and "
    "ExtendedToStreamDecorator (StreamFailFast).  failfast: off, set on the leaf before wrapping, set "
    "on the outermost object after wrapping.  Histories: 1-3 startTestRun..stopTestRun segments of "
    "0..8 REAL tests (TestCase subclasses and PlaceHolders with a scripted outcome, so that the "
    "ExtendedToOriginalDecorator every test wraps its result in is part of the execution), dispatched "
    "one by one or through unittest.TestSuite.run, with stop() injected from inside a test.  After "
    "EVERY test the monitor reads wasSuccessful() and shouldStop of the outermost object and every "
    "leaf and compares with a three-line model; TextTestResult's text is parsed; testtools.run is "
    "driven in-process and in a few real subprocesses for the exit status.  Distinct = canonical "
    "JSON; non-trivial = at least one unsuccessful outcome or a stop()."
)
REQUIRED = {
    "mon:failfast.reads-back-what-was-set": 500,
    "mon:wasSuccessful==no-problem-since-startTestRun": 5000,
    "mon:failfast.shouldStop-at-first-problem-not-earlier": 1000,
    "mon:stop.reaches-every-underlying-result": 300,
    "mon:suite.stops-dispatching": 300,
    "mon:text.summary-agrees": 300,
    "mon:run.failfast-stops-at-first-problem": 20,
    "mon:run.exit-status==not-wasSuccessful": 60,
}
ASSUMPTIONS = [
    "ExtendedToStreamDecorator.wasSuccessful follows Python 2.7 for unexpected successes (documented "
    "in the repository); only what the property lists is asserted for it: shouldStop at the first "
    "fail / uxsuccess with failfast, wasSuccessful False after a fail",
    "for a leaf without shouldStop/stop of its own (Twisted-style) 'reaches the underlying result' "
    "means the adapter's own fallback flag becomes true",
]

OUTCOMES = ["success", "failure", "error", "skip", "xfail", "uxsuccess"]
BAD = {"failure", "error", "uxsuccess"}
STACKS = ["TestResult", "TextTestResult", "Multi[real,real]", "Multi[real,text,ext]", "Multi[Multi[real],real]",
          "Multi[twisted,real]", "TFR[real]", "TFR[text]", "E2O[real]", "E2O[Multi[real,real]]",
          "Decorator[real]", "Tagger[Multi[real,text]]", "Decorator[TFR[real]]", "E2S",
          # a multiplexer whose sinks do not agree on unexpected successes (the stream decorator keeps Python 2.7's
          # reading): the multiplexer is one of testtools' own results, its verdict is the conjunction
          "Multi[real,E2S]", "Multi[E2S,text]"]


class Built:
    pass


def build(name, leaf_failfast):
    import testtools
    b = Built()
    b.leaves = []       # real testtools results (wasSuccessful is specified for them)
    b.stoppable = []    # every underlying object with a shouldStop to read
    b.text_streams = []
    b.foreign = False

    def real():
        r = testtools.TestResult(failfast=leaf_failfast)
        b.leaves.append(r)
        b.stoppable.append(r)
        return r

    def text():
        s = io.StringIO()
        r = testtools.TextTestResult(s, failfast=leaf_failfast)
        b.leaves.append(r)
        b.stoppable.append(r)
        b.text_streams.append((r, s))
        return r

    def ext():
        r = recorders.ExtRecorder()
        r.failfast = leaf_failfast
        b.stoppable.append(r)
        return r

    def twisted():
        b.foreign = True  # not one of testtools' own results: its verdict is its own business
        return recorders.TwistedRecorder()

    sem = lambda: threading.Semaphore(1)  # noqa: E731
    tops = {
        "TestResult": real,
        "TextTestResult": text,
        "Multi[real,real]": lambda: testtools.MultiTestResult(real(), real()),
        "Multi[real,text,ext]": lambda: testtools.MultiTestResult(real(), text(), ext()),
        "Multi[Multi[real],real]": lambda: testtools.MultiTestResult(testtools.MultiTestResult(real()), real()),
        "Multi[twisted,real]": lambda: testtools.MultiTestResult(twisted(), real()),
        "TFR[real]": lambda: testtools.ThreadsafeForwardingResult(real(), sem()),
        "TFR[text]": lambda: testtools.ThreadsafeForwardingResult(text(), sem()),
        "E2O[real]": lambda: testtools.ExtendedToOriginalDecorator(real()),
        "E2O[Multi[real,real]]": lambda: testtools.ExtendedToOriginalDecorator(
            testtools.MultiTestResult(real(), real())),
        "Decorator[real]": lambda: testtools.TestResultDecorator(real()),
        "Tagger[Multi[real,text]]": lambda: testtools.Tagger(testtools.MultiTestResult(real(), text()), {"t"}, set()),
        "Decorator[TFR[real]]": lambda: testtools.TestResultDecorator(
            testtools.ThreadsafeForwardingResult(real(), sem())),
        "Multi[real,E2S]": lambda: testtools.MultiTestResult(
            real(), testtools.ExtendedToStreamDecorator(recorders.StreamRecorder())),
        "Multi[E2S,text]": lambda: testtools.MultiTestResult(
            testtools.ExtendedToStreamDecorator(recorders.StreamRecorder()), text()),
    }
    if name == "E2S":
        b.sink = recorders.StreamRecorder()
        b.top = testtools.ExtendedToStreamDecorator(b.sink)
        if leaf_failfast:
            b.top.failfast = True
    else:
        b.top = tops[name]()
    b.name = name
    return b


def make_test(i, outcome, kind, stop_hook=None, tid=None):
    import testtools
    tid = tid or "t%d" % i
    name = {"success": "addSuccess", "failure": "addFailure", "error": "addError", "skip": "addSkip",
            "xfail": "addExpectedFailure", "uxsuccess": "addUnexpectedSuccess"}[outcome]
    if kind == "placeholder" and stop_hook is None:
        details = {}
        if outcome in ("failure", "error", "xfail"):
            details = {"traceback": testtools.content.text_content("tb %d" % i)}
        if outcome == "skip":
            details = {"reason": testtools.content.text_content("because")}
        return testtools.PlaceHolder(tid, outcome=name, details=details)

    class T(testtools.TestCase):
        def test(self):
            if stop_hook is not None:
                stop_hook()
            if i % 2:
                # a text attachment read in chunks that split a multi-byte character (a log read 4096 bytes at a time)
                from testtools.content import Content
                from testtools.content_type import UTF8_TEXT
                whole = "caf\xe9 \u2603 log of test %d" % i
                raw = whole.encode("utf8")
                self.addDetail("log", Content(UTF8_TEXT, lambda: [raw[:4], raw[4:7], raw[7:]]))
            if outcome == "failure":
                self.fail("f%d" % i)
            if outcome == "error":
                raise ValueError("e%d" % i)
            if outcome == "skip":
                self.skipTest("s%d" % i)
            if outcome == "xfail":
                self.expectFailure("x%d" % i, self.assertEqual, 1, 0)
            if outcome == "uxsuccess":
                self.expectFailure("u%d" % i, self.assertEqual, 1, 1)

        def id(self):
            return tid
    return T("test")


def x_hist(ctx, case):
    # ("leaf_none": the underlying results were made with failfast=None, as testtools.run makes its own by default)
    try:
        b = build(case["stack"], True if case["failfast"] == "leaf" else (None if case.get("leaf_none") else False))
    except Exception as e:  # noqa - constructing testtools' own results over each other: that is the violation
        ctx.check(False, "failfast.settable-on-outermost", {"stack": case["stack"], "constructing the stack raised": repr(e)})
        return True
    top = b.top
    is_stream = case["stack"] == "E2S"
    if case["failfast"] == "top":
        try:
            top.failfast = True
        except Exception as e:  # noqa
            ctx.check(False, "failfast.settable-on-outermost", {"stack": case["stack"], "error": repr(e)})
            return True
    failfast = case["failfast"] != "off"
    for value in case.get("ff_seq", []):
        # failfast assigned repeatedly (configuration layers): the last assignment is what counts
        try:
            top.failfast = value
        except Exception as e:  # noqa
            ctx.check(False, "failfast.settable-on-outermost", {"stack": case["stack"], "error": repr(e)})
            return True
        failfast = bool(value)
    if case["failfast"] != "leaf":
        # the attribute reads back what was assigned last on the outermost object (unset: off)
        # (TestResultDecorator has no such attribute until one is assigned: nothing to read then)
        try:
            seen = bool(top.failfast)
        except AttributeError:
            seen = None
        if seen is not None:
            ctx.check(seen == failfast, "failfast.reads-back-what-was-set",
                      lambda: {"stack": case["stack"], "reads": seen, "set": failfast, "case": case})
    detail = lambda: {"case": case}  # noqa: E731
    nontrivial = False
    i = 0
    for seg in case["segments"]:
        top.startTestRun()
        bad_seen = False
        stop_called = False
        mode = seg.get("mode", "direct")
        tests = []
        ids = []
        for k, outcome in enumerate(seg["tests"]):
            i += 1
            hook = None
            if seg.get("stop_at") == k:
                hook = top.stop
                if seg.get("leaf_stop_first") and b.stoppable:
                    # one underlying result has already been stopped directly (by another worker sharing it,
                    # say) when stop() is called on the outermost object: it still has to reach the others
                    def hook(first=b.stoppable[0], top=top):
                        first.stop()
                        top.stop()
            tid = None
            if seg.get("dup_ids") and k in seg["dup_ids"]:
                tid = "t%d" % (i - 1 - seg["dup_ids"].index(k))  # same id as an earlier test of this run
            ids.append(tid or "t%d" % i)
            tests.append((outcome, make_test(i, outcome, seg["kinds"][k], hook, tid)))

        def after(outcome, k):
            nonlocal bad_seen, stop_called, nontrivial
            if seg.get("stop_at") == k:
                stop_called = True
                nontrivial = True
            if outcome in BAD:
                bad_seen = True
                nontrivial = True
            # verdict
            if not is_stream:
                for r in ([] if b.foreign else [top]) + b.leaves:
                    ctx.check(r.wasSuccessful() == (not bad_seen),
                              "wasSuccessful==no-problem-since-startTestRun",
                              lambda: {"object": type(r).__name__, "wasSuccessful": r.wasSuccessful(),
                                       "problem seen": bad_seen, "after test": k, **detail()})
            elif any(o in ("failure", "error") for o in seg["tests"][:k + 1]):
                ctx.check(top.wasSuccessful() is False, "wasSuccessful==no-problem-since-startTestRun",
                          lambda: {"object": "ExtendedToStreamDecorator", "after test": k, **detail()})
            # stop control
            want_stop = stop_called or (failfast and bad_seen)
            if failfast and not stop_called:
                ctx.check(bool(top.shouldStop) == bad_seen, "failfast.shouldStop-at-first-problem-not-earlier",
                          lambda: {"shouldStop": top.shouldStop, "problem seen": bad_seen, "after test": k, **detail()})
            if stop_called:
                flags = [bool(getattr(s, "shouldStop")) for s in b.stoppable]
                ctx.check(bool(top.shouldStop) and all(flags), "stop.reaches-every-underlying-result",
                          lambda: {"top": top.shouldStop, "underlying": flags, "after test": k, **detail()})
            if not failfast and not stop_called:
                ctx.check(not top.shouldStop, "shouldStop-false-without-cause",
                          lambda: {"shouldStop": top.shouldStop, "after test": k, **detail()})
            return want_stop

        def run_one(t, result, k):
            # an exception leaving run() for one of these tests (none of them raises an interrupt) is a result that
            # failed to take the report: that is the violation, not a harness problem
            try:
                t.run(result)
            except Exception as e:  # noqa
                ctx.check(False, "wasSuccessful==no-problem-since-startTestRun",
                          lambda: {"reporting the test raised": repr(e), "after test": k, **detail()})

        if mode == "direct":
            for k, (outcome, t) in enumerate(tests):
                run_one(t, top, k)
                after(outcome, k)
        else:
            ran = []

            class Wrap:
                def __init__(self, t, k, outcome):
                    self.t, self.k, self.outcome = t, k, outcome

                def __call__(self, result):
                    ran.append(self.k)
                    run_one(self.t, result, self.k)
                    after(self.outcome, self.k)

                def countTestCases(self):
                    return 1
            suite = unittest.TestSuite([Wrap(t, k, o) for k, (o, t) in enumerate(tests)])
            suite.run(top)
            # expected number dispatched: up to and including the first test that made shouldStop true
            want = len(tests)
            for k, (o, t) in enumerate(tests):
                if seg.get("stop_at") == k or (failfast and o in BAD):
                    want = k + 1
                    break
            ctx.check(len(ran) == want, "suite.stops-dispatching",
                      lambda: {"dispatched": len(ran), "want": want, **detail()})
        top.stopTestRun()
        # TextTestResult summary of this segment
        for r, s in b.text_streams:
            text = s.getvalue()
            s.seek(0)
            s.truncate()
            n_run = len(ran) if mode != "direct" else len(tests)
            bad = [o for o in seg["tests"][:n_run] if o in BAD]
            m = re.search(r"\nRan (\d+) tests? in ", text)
            ok = m is not None and int(m.group(1)) == n_run
            if bad:
                ok = ok and ("FAILED (failures=%d)" % len(bad)) in text and "\nOK\n" not in text
            else:
                ok = ok and text.rstrip().endswith("OK") and "FAILED" not in text
            found = sorted(re.findall(r"^(ERROR|FAIL|UNEXPECTED SUCCESS): (\S+)$", text, re.M))
            sections = len(found)
            label = {"error": "ERROR", "failure": "FAIL", "uxsuccess": "UNEXPECTED SUCCESS"}
            want_sections = sorted((label[o], ids[k2])
                                   for k2, o in enumerate(seg["tests"][:n_run]) if o in BAD)
            ok = ok and found == want_sections
            ctx.check(ok, "text.summary-agrees",
                      lambda: {"text": text[-400:], "ran": n_run, "problems": len(bad), "sections": sections, **detail()})
    return nontrivial


def x_stream_replay(ctx, case):
    """ExtendedToStreamDecorator -> StreamToExtendedDecorator -> TextTestResult: the verdict and the summary of
    the result at the far end agree with what was reported, also for a test whose id is the empty string and for
    a test still in progress when the run stops (reported as a failure BEFORE the summary is written)."""
    import testtools
    stream = io.StringIO()
    leaf = testtools.TextTestResult(stream)
    top = testtools.ExtendedToStreamDecorator(testtools.StreamToExtendedDecorator(leaf))
    if case.get("abandoned_first"):
        # an earlier run through the same objects was abandoned mid-test (no outcome, no stopTestRun): what counts
        # is what was reported "since the last startTestRun"
        top.startTestRun()
        testtools.PlaceHolder("finished-in-the-abandoned-run").run(top)
        top.startTest(testtools.PlaceHolder("abandoned"))
    top.startTestRun()
    outcomes, ids = case["tests"], case["ids"]
    for i, (o, tid) in enumerate(zip(outcomes, ids)):
        try:
            make_test(i, o, "testcase", None, "t%d" % i).run(top) if tid is None else _IdTest(o, tid).run(top)
        except Exception as e:  # noqa - reporting an ordinary test raised
            ctx.check(False, "text.summary-agrees", {"case": case, "reporting test %d raised" % i: repr(e)})
            return True
    n = len(outcomes)
    problems = sum(1 for o in outcomes if o in BAD)
    if case.get("hung"):
        top.startTest(testtools.PlaceHolder("still-running"))
        n += 1
        problems += 1
    top.stopTestRun()
    text = stream.getvalue()
    ran = re.findall(r"\nRan (\d+) tests? in ", text)
    sections = re.findall(r"^(ERROR|FAIL|UNEXPECTED SUCCESS): ?(.*)$", text, re.M)
    last = text.rstrip().splitlines()[-1] if text.strip() else ""
    ok = (leaf.wasSuccessful() == (problems == 0) and ran == [str(n)] and len(sections) == problems
          and (last == "OK" if problems == 0 else last.startswith("FAILED (failures=%d" % problems)))
    ctx.check(ok, "text.summary-agrees",
              lambda: {"case": case, "wasSuccessful": leaf.wasSuccessful(), "Ran": ran, "sections": sections,
                       "last line": last, "problems reported": problems, "tail": text[-300:]})
    return True


def x_classfail(ctx, case):
    """A problem reported WITHOUT a started test - what a plain unittest.TestSuite does when setUpClass (or
    setUpModule) fails: addError(<holder>, exc_info), no startTest.  It counts like any other error: verdict
    false, FAILED with the right total, one section for it - also when it is the only thing the run reports."""
    import testtools

    class Broken(testtools.TestCase):
        @classmethod
        def setUpClass(cls):
            raise RuntimeError("setUpClass failed <<CLS>>")

        def test_a(self):
            pass

        def test_b(self):
            pass
    others = [make_test(i, o, "testcase") for i, o in enumerate(case["others"])]
    broken = [Broken("test_a"), Broken("test_b")][:case["broken_tests"]]
    tests = broken + others if case["broken_first"] else others + broken
    stream = io.StringIO()
    leaf = testtools.TextTestResult(stream, failfast=case["failfast"])
    top = {"text": lambda: leaf, "multi": lambda: testtools.MultiTestResult(leaf, testtools.TestResult()),
           "e2o": lambda: testtools.ExtendedToOriginalDecorator(leaf)}[case["stack"]]()
    top.startTestRun()
    unittest.TestSuite(tests).run(top)
    top.stopTestRun()
    text = stream.getvalue()
    first_bad = next((k for k, t in enumerate(tests) if t in broken or case["others"][others.index(t)] in BAD), None)
    ran_tests = tests if not (case["failfast"] and first_bad is not None) else tests[:first_bad + 1]
    problems = (1 if any(t in broken for t in ran_tests) else 0) + sum(
        1 for t in ran_tests if t in others and case["others"][others.index(t)] in BAD)
    started = sum(1 for t in ran_tests if t in others)
    ran = re.findall(r"\nRan (\d+) tests? in ", text)
    sections = re.findall(r"^(ERROR|FAIL|UNEXPECTED SUCCESS): ?(.*)$", text, re.M)
    last = text.rstrip().splitlines()[-1] if text.strip() else ""
    ok = (leaf.wasSuccessful() == (problems == 0) and top.wasSuccessful() == (problems == 0) and ran == [str(started)]
          and len(sections) == problems and ("<<CLS>>" in text) == any(t in broken for t in ran_tests)
          and (last == "OK" if problems == 0 else last.startswith("FAILED (failures=%d" % problems)))
    ctx.check(ok, "text.summary-agrees",
              lambda: {"case": case, "wasSuccessful": leaf.wasSuccessful(), "Ran": ran, "want started": started,
                       "sections": sections, "problems": problems, "last line": last, "tail": text[-400:]})
    return True


def x_strict_text(ctx, case):
    """A TextTestResult subclass with a stricter wasSuccessful() (skips count against the run; so does a run with
    no test at all): the OK / FAILED line it writes, and testtools.run's exit status, follow ITS verdict."""
    import testtools

    class Strict(testtools.TextTestResult):
        def wasSuccessful(self):
            return super().wasSuccessful() and not self.skip_reasons and self.testsRun > 0
    stream = io.StringIO()
    leaf = Strict(stream)
    leaf.startTestRun()
    for i, o in enumerate(case["tests"]):
        make_test(i, o, "testcase").run(leaf)
    leaf.stopTestRun()
    text = stream.getvalue()
    last = text.rstrip().splitlines()[-1] if text.strip() else ""
    verdict = leaf.wasSuccessful()
    ctx.check((last == "OK") == verdict and (last.startswith("FAILED") == (not verdict)), "text.summary-agrees",
              lambda: {"tests": case["tests"], "the subclass's wasSuccessful()": verdict, "last line": last})
    return True


def x_concurrent_abort(ctx, case):
    """stop() must reach the workers' results when a concurrent suite's run() is aborted by an interrupt in the
    calling thread (the machinery - controlled scheduler, interrupt injection - is C13's)."""
    from . import c13
    return c13.x_schedule(ctx, case)


class _IdTest:
    """A test object with an arbitrary id (also the empty string) and a fixed outcome."""

    def __init__(self, outcome, tid):
        self.outcome, self.tid = outcome, tid

    def run(self, result):
        import testtools
        name = {"success": "addSuccess", "failure": "addFailure", "error": "addError", "skip": "addSkip",
                "xfail": "addExpectedFailure", "uxsuccess": "addUnexpectedSuccess"}[self.outcome]
        details = {}
        if self.outcome in ("failure", "error", "xfail"):
            details = {"traceback": testtools.content.text_content("tb")}
        if self.outcome == "skip":
            details = {"reason": testtools.content.text_content("because")}
        testtools.PlaceHolder(self.tid, outcome=name, details=details).run(result)


_mod_counter = iter(range(10 ** 9))


def x_run(ctx, case):
    """testtools.run exit status, in process."""
    from testtools.run import TestProgram
    outcomes = case["tests"]
    modname = "tvm_c04_mod_%d" % next(_mod_counter)
    mod = types.ModuleType(modname)
    mod.test_suite = lambda: unittest.TestSuite(
        [make_test(i, o, "testcase") for i, o in enumerate(outcomes)])
    sys.modules[modname] = mod
    out = io.StringIO()
    code = "no SystemExit"
    prog = None
    if case.get("interrupt_at") is not None and case["interrupt_at"] < len(outcomes):
        return _run_interrupted(ctx, case, outcomes)
    try:
        argv = ["prog"] + (["-f"] if case.get("failfast") else []) + ["test_suite"]
        from testtools.run import TestToolsTestRunner

        class NoTbLocals(TestToolsTestRunner):
            """A runner class with the constructor contract before tb_locals was added."""

            def __init__(self, verbosity=None, failfast=None, buffer=None, stdout=None):
                super().__init__(verbosity=verbosity, failfast=failfast, buffer=buffer, stdout=stdout)

        class Prior(TestToolsTestRunner):
            """... and the one before stdout was (also unittest.TextTestRunner's shape)."""

            def __init__(self, verbosity=None, failfast=None, buffer=None):
                super().__init__(verbosity=verbosity, failfast=failfast, buffer=buffer, stdout=out)
        runner = {"no_tb_locals": NoTbLocals, "prior": Prior}.get(case.get("runner_class"))
        if case.get("runner_class") == "stdout_default":
            # no stdout given: whatever sys.stdout is WHEN THE PROGRAM RUNS gets the report (here a redirection made
            # long after testtools.run was imported)
            import contextlib
            with contextlib.redirect_stdout(out):
                prog = TestProgram(module=mod, argv=argv)
        elif case.get("runner_class") == "via_main":
            # the way `python -m testtools.run` comes in: run.main(argv, stdout), tests named by dotted path
            from testtools import run as run_module
            run_module.main(argv[:-1] + [modname + ".test_suite"], out)
        else:
            prog = TestProgram(module=mod, argv=argv, stdout=out, testRunner=runner)
    except SystemExit as e:
        code = e.code
    except Exception as e:  # noqa - the program dying of an exception while reporting ordinary tests: that is the violation
        ctx.check(False, "run.exit-status==not-wasSuccessful",
                  {"testtools.run raised instead of exiting": repr(e), "outcomes": outcomes, "tail": out.getvalue()[-200:]})
        return True
    finally:
        sys.modules.pop(modname, None)
    bad = [o for o in outcomes if o in BAD]
    if case.get("failfast") and bad:
        first = next(k for k, o in enumerate(outcomes) if o in BAD)
        bad = [o for o in outcomes[:first + 1] if o in BAD]
    text = out.getvalue()
    n_want = len(outcomes)
    if case.get("failfast") and bad:
        n_want = next(k for k, o in enumerate(outcomes) if o in BAD) + 1
    import re
    ran = re.findall(r"Ran (\d+) test", text)
    ctx.check(ran == [str(n_want)], "run.failfast-stops-at-first-problem",
              lambda: {"Ran": ran, "want": n_want, "failfast": bool(case.get("failfast")), "outcomes": outcomes,
                       "runner class": case.get("runner_class"), "tail": text[-200:]})
    want = 1 if bad else 0
    ctx.check(code in (want, bool(want)) and code is not None and int(code) == want,
              "run.exit-status==not-wasSuccessful",
              lambda: {"exit": repr(code), "want": want, "outcomes": outcomes, "tail": text[-200:]})
    ctx.check(("OK" in text.splitlines()[-1:][0] if text.splitlines() else False) == (not bad),
              "run.summary-agrees-with-exit-status", lambda: {"tail": text[-200:], "problems": len(bad)})
    return bool(bad)


def _run_interrupted(ctx, case, outcomes):
    """A test raises KeyboardInterrupt (reported as an error, then re-raised): the interrupt leaves
    testtools.run, but not before the summary - which agrees with the verdict - has been written."""
    from testtools.run import TestProgram
    import testtools
    k = case["interrupt_at"]

    class Interrupted(testtools.TestCase):
        def test(self):
            raise KeyboardInterrupt("ctrl-c")

        def id(self):
            return "interrupted"
    modname = "tvm_c04_mod_%d" % next(_mod_counter)
    mod = types.ModuleType(modname)
    tests = [make_test(i, o, "testcase") for i, o in enumerate(outcomes)]
    tests[k] = Interrupted("test")
    mod.test_suite = lambda: unittest.TestSuite(tests)
    sys.modules[modname] = mod
    out = io.StringIO()
    got = None
    try:
        TestProgram(module=mod, argv=["prog", "test_suite"], stdout=out)
    except BaseException as e:  # noqa
        got = e
    finally:
        sys.modules.pop(modname, None)
    text = out.getvalue()
    import re
    ran = re.findall(r"Ran (\d+) test", text)
    ctx.check(isinstance(got, KeyboardInterrupt) and ran == [str(k + 1)] and "FAILED" in text,
              "run.summary-agrees-with-exit-status",
              lambda: {"interrupted at": k, "left run() as": repr(got), "Ran": ran, "tail": text[-200:]})
    return True


def x_subprocess(ctx, case):
    outcomes = case["tests"]
    d = tempfile.mkdtemp(prefix="tvm-c04-")
    try:
        with open(os.path.join(d, "tvm_c04_sub.py"), "w") as f:
            f.write("import unittest, testtools\nOUT = %r\n"
                    "def mk(i, o):\n"
                    "    class T(testtools.TestCase):\n"
                    "        def test(self):\n"
                    "            if o == 'failure': self.fail('f')\n"
                    "            if o == 'error': raise ValueError('e')\n"
                    "            if o == 'skip': self.skipTest('s')\n"
                    "            if o == 'xfail': self.expectFailure('x', self.assertEqual, 1, 0)\n"
                    "            if o == 'uxsuccess': self.expectFailure('u', self.assertEqual, 1, 1)\n"
                    "    return T('test')\n"
                    "def test_suite(): return unittest.TestSuite([mk(i, o) for i, o in enumerate(OUT)])\n"
                    % (outcomes,))
        env = dict(os.environ, PYTHONPATH=os.pathsep.join([core.REPO_ROOT, d]))
        r = subprocess.run([sys.executable, "-m", "testtools.run", "tvm_c04_sub.test_suite"],
                           capture_output=True, text=True, env=env, cwd=d, timeout=120)
        want = 1 if any(o in BAD for o in outcomes) else 0
        ctx.check(r.returncode == want, "run.exit-status==not-wasSuccessful",
                  lambda: {"rc": r.returncode, "want": want, "outcomes": outcomes, "stdout": r.stdout[-300:],
                           "stderr": r.stderr[-300:]})
    finally:
        shutil.rmtree(d, ignore_errors=True)
    return True


SUBCHECKS = {"hist": x_hist, "run": x_run, "subprocess": x_subprocess, "stream_replay": x_stream_replay,
             "classfail": x_classfail, "strict_text": x_strict_text,
             "concurrent_abort": x_concurrent_abort}


def random_segment(rng):
    n = rng.randint(0, 8)
    tests = [rng.choice(OUTCOMES + ["success", "success"]) for _ in range(n)]
    seg = {"tests": tests, "kinds": [rng.choice(["placeholder", "testcase"]) for _ in range(n)],
           "mode": rng.choice(["direct", "suite"])}
    if n and rng.random() < 0.25:
        seg["stop_at"] = rng.randrange(n)
        if rng.random() < 0.4:
            seg["leaf_stop_first"] = True
    if n >= 2 and rng.random() < 0.2:
        seg["dup_ids"] = [rng.randrange(1, n)]  # a test loaded twice / re-run under the same id
    return seg


def run(ctx):
    rng = ctx.rng
    n = 0
    # every stack x failfast mode x each single bad outcome at each position of a 3-test run, twice
    for stack in STACKS:
        for ff in ("off", "leaf", "top"):
            if stack == "E2S" and ff == "top":
                continue
            for bad in ("failure", "error", "uxsuccess"):
                for pos in range(3):
                    for kind in ("placeholder", "testcase"):
                        for mode in ("direct", "suite"):
                            if not ctx.mine():
                                continue
                            tests = ["success", "skip", "xfail"]
                            tests[pos] = bad
                            seg = {"tests": tests, "kinds": [kind] * 3, "mode": mode}
                            n += 1
                            ctx.execute("hist", {"stack": stack, "failfast": ff,
                                                 "segments": [seg, {"tests": ["success", "success"],
                                                                    "kinds": [kind] * 2, "mode": mode}]},
                                        sample=(n % 211 == 0))
    ctx.note_space("14 stacks x 3 failfast modes x {failure,error,uxsuccess} at each of 3 positions x 2 test "
                   "kinds x {direct, TestSuite} followed by a clean second run", n)
    ctx.notes["random_cases"] = True
    for i in range(ctx.scale(10000, 400000)):
        if ctx.out_of_time():
            break
        stack = rng.choice(STACKS)
        ff = rng.choice(["off", "off", "leaf", "top"])
        if stack == "E2S" and ff == "top":
            ff = "leaf"
        hist = {"stack": stack, "failfast": ff,
                "segments": [random_segment(rng) for _ in range(rng.randint(1, 3))]}
        if ff != "leaf" and rng.random() < 0.25:
            hist["leaf_none"] = True
        if ff != "leaf" and rng.random() < 0.2:
            hist["ff_seq"] = [rng.random() < 0.5 for _ in range(rng.randint(1, 4))]
        ctx.execute("hist", hist)
    for i in range(ctx.scale(120, 6000)):
        tests = [rng.choice(OUTCOMES) for _ in range(rng.randint(0, 5))]
        ctx.execute("run", {"tests": tests, "failfast": rng.random() < 0.3,
                            "runner_class": rng.choice([None, None, "no_tb_locals", "prior", "via_main", "stdout_default"])})
    for kind in ("cts", "stream"):
        for at in (3, 5, 8, 11):
            for rep in range(2):
                ctx.execute("concurrent_abort", {"kind": kind, "workers": [{"tests": 2}, {"tests": 2}],
                                                 "abort": ["interrupt", at], "mode": "random",
                                                 "rseed": rng.randrange(10 ** 9), "p": 0.5})
    # nobody asked for a stop: one worker whose runner breaks (reported as an error) does not stop the others'
    # dispatching, and workers that share a route code are all waited for and all counted
    for rep in range(ctx.scale(4, 60)):
        for at in (0, 1, 2):
            ctx.execute("concurrent_abort", {"kind": "cts", "workers": [{"tests": 2, "raise_at": at}, {"tests": 3}, {"tests": 2}],
                                             "mode": "random", "rseed": rng.randrange(10 ** 9), "p": 0.5})
        for route in (None, "shared"):
            ctx.execute("concurrent_abort", {"kind": "stream", "workers": [{"tests": 2}, {"tests": 3}, {"tests": 1}],
                                             "same_route": route, "mode": "random", "rseed": rng.randrange(10 ** 9), "p": 0.5})
    for tests in (["success"], ["failure"], ["success", "error", "success"], ["skip", "xfail"], ["uxsuccess", "success"], []):
        for empty_at in [None] + list(range(len(tests))):
            for hung in (False, True):
                ids = [("" if k == empty_at else None) for k in range(len(tests))]
                ctx.execute("stream_replay", {"tests": tests, "ids": ids, "hung": hung})
                if empty_at is None:
                    ctx.execute("stream_replay", {"tests": tests, "ids": ids, "hung": hung, "abandoned_first": True})
    for tests in (["success"], ["success", "failure", "success"], ["skip", "success"]):
        for k in range(len(tests)):
            ctx.execute("run", {"tests": tests, "interrupt_at": k})
    for stack in STACKS:
        for seq in ([True, True, False], [True, False], [False, True], [True, True], [False, True, True, False]):
            for tests in (["failure", "success"], ["success", "error", "success"]):
                ctx.execute("hist", {"stack": stack, "failfast": "off", "ff_seq": seq,
                                     "segments": [{"tests": tests, "kinds": ["testcase"] * len(tests)},
                                                  {"tests": tests, "kinds": ["placeholder"] * len(tests)}]})
    for stack in ("text", "multi", "e2o"):
        for others in ([], ["success"], ["success", "failure"], ["error", "success"]):
            for broken_tests in (1, 2):
                for broken_first in (True, False):
                    for ff in (False, True):
                        ctx.execute("classfail", {"stack": stack, "others": others, "broken_tests": broken_tests,
                                                  "broken_first": broken_first, "failfast": ff})
    for tests in ([], ["success"], ["skip"], ["success", "skip"], ["failure"], ["success", "uxsuccess"], ["xfail", "success"]):
        ctx.execute("strict_text", {"tests": tests})
    for rc in (None, "no_tb_locals", "prior", "via_main", "stdout_default"):
        for ff in (True, False):
            for tests in (["failure", "success", "error"], ["success", "error", "failure"], ["uxsuccess", "success"]):
                ctx.execute("run", {"tests": tests, "failfast": ff, "runner_class": rc})
    for tests in ([], ["success"], ["skip", "xfail"], ["uxsuccess"], ["success", "error"], ["failure"]):
        if ctx.mine():
            ctx.execute("subprocess", {"tests": tests})
