"""C05 - all details and every traceback reach the result; none is dropped or overwritten."""

import re

from .. import progen, programs, recorders

PROPERTY = "C05"
LEVEL = "exploration"
RULE = (
    "a case is a test program whose stages attach details (names from a pool that collides with "
    "generated names: traceback, traceback-1, Failed expectation, foo-1 ...; payloads empty, "
    "multi-chunk, arbitrary bytes, lazily evaluated cells changed after addDetail), run "
    "assertThat/expectThat mismatches carrying details, use fixtures carrying details (ok, failing "
    "_setUp, failing cleanUp, nested), raise 0..k exceptions incl. nested MultipleExceptions and "
    "register addOnException handlers.  Monitor: conservation by unique tokens - every expected "
    "payload must be found, byte-identical, in the details snapshotted inside the recorder's addX; "
    "every raised failure/error token must occur in a traceback-named detail; handler calls are "
    "matched to exception objects by identity and ordered by sequence number.  Distinct = canonical "
    "JSON of the program; non-trivial = at least one expected payload, traceback or handler call."
)
REQUIRED = {
    "mon:detail.user-payload-delivered": 300,
    "mon:real-result.records-the-same-outcome": 500,
    "mon:traceback.one-per-raised-failure": 300,
    "mon:mismatch.detail-delivered": 50,
    "mon:fixture.detail-delivered": 50,
    "mon:onexc.called-once-before-outcome": 100,
    "mon:lazy.bytes-at-reporting-time": 30,
}
ASSUMPTIONS = [
    "the name 'reason' is reserved and never used for user details (as the property states)",
    "two user addDetail calls under the SAME name are an overwrite requested by the user; only the "
    "last is expected",
    "fixtures whose _setUp raises a non-Exception (KeyboardInterrupt) are not generated: the "
    "fixtures library drops their details before testtools sees them",
    "details a fixture attaches after useFixture returned are not demanded (C05 note in DESIGN.md)",
    "the runner's own 'Forced Test Failure' and the fixtures library's SetupError are tolerated "
    "as additional tracebacks / handler calls",
]

TB_NAME = re.compile(r"^traceback(-\d+)*$")
TRACEBACK_KINDS = {"fail", "error", "failsub", "mismatch", "kbd", "exit", "kbdsub", "exitsub", "basedirect", "genexit", "xfail", "xfail_err",
                   "eqexc", "sameobj", "unhashable", "eqany"}


def x_prog(ctx, case):
    nontrivial = _one_run(ctx, case, None)
    _rendering_result(ctx, case)
    return nontrivial


def _rendering_result(ctx, case):
    """The same program against testtools.TestResult, which RENDERS the details as text when the outcome
    arrives: the outcome is recorded (rendering does not fail, whatever the chunking of text details), and the
    rendering names every UTF-8 text detail."""
    import testtools
    program = case["prog"]
    real = testtools.TestResult()
    log = recorders.Log()
    env = programs.Env(program)
    run = programs.execute(program, lambda: testtools.MultiTestResult(recorders.ExtRecorder(log), real), env=env,
                           runner_factory=programs.runner_factory_for(case.get("runner")))
    outs = [e for e in log.events if e.name in recorders.OUTCOMES]
    if len(outs) != 1:
        return
    name = outs[0].name
    recorded = {"addError": len(real.errors), "addFailure": len(real.failures),
                "addExpectedFailure": len(real.expectedFailures), "addUnexpectedSuccess": len(real.unexpectedSuccesses),
                "addSkip": sum(len(v) for v in real.skip_reasons.values()), "addSuccess": 0}
    total = sum(v for k, v in recorded.items())
    want_total = 0 if name == "addSuccess" else 1
    ok = total == want_total and (name == "addSuccess" or recorded[name] == 1)
    base = isinstance(run.propagated, BaseException) and not isinstance(run.propagated, Exception)
    ctx.check(ok and (run.propagated is None or base), "real-result.records-the-same-outcome",
              lambda: {"outcome": name, "recorded by TestResult": recorded, "propagated": repr(run.propagated),
                       "log": [e[1:] for e in env.events][:30]})
    if ok and name in ("addError", "addFailure"):
        rendered = (real.errors + real.failures)[0][1]
        delivered = outs[0].payload["details"] or {}
        missing = [pid for (tag, dname, pid, *rest) in [e[1:] for e in env.tags("detail")]
                   if rest[-1] == "text" and any(pid.encode() in v[1] for v in delivered.values()) and pid not in rendered]
        ctx.check(not missing, "real-result.records-the-same-outcome",
                  lambda: {"text details missing from the rendered outcome": missing, "rendered": rendered[-400:]})


def x_rerun(ctx, case):
    """The same TestCase instance run twice: the second outcome carries exactly the second run's
    details (nothing left over from the first run, nothing missing)."""
    program = case["prog"]
    env = programs.Env(program)
    the_case = programs.build_case(program, env, programs.runner_factory_for(case.get("runner")))
    _one_run(ctx, case, (env, the_case))
    env.reset_for_rerun()
    # handler registrations persist on the instance by design: re-announce them for the oracle
    return _one_run(ctx, case, (env, the_case), second=True)


def _one_run(ctx, case, shared, second=False):
    program = case["prog"]
    env = shared[0] if shared else programs.Env(program)
    cells_at = {}

    def hook(name, test):
        if name in recorders.OUTCOMES:
            cells_at["cells"] = dict(env.cells)
    log = recorders.Log(hook)
    run = programs.execute(program, lambda: recorders.ExtRecorder(log), env=env,
                           case=shared[1] if shared else None,
                           runner_factory=programs.runner_factory_for(case.get("runner")))
    outs = [e for e in log.events if e.name in recorders.OUTCOMES]
    if not outs and (env.raised or env.tags("detail", "lazy")):
        # no outcome at all: whatever the run attached or raised reached nobody
        ctx.check(False, "detail.user-payload-delivered",
                  {"no outcome was delivered": log.names(), "raised": [(k, t) for k, t, _ in env.raised],
                   "propagated": repr(run.propagated), "prog": program})
        return True
    if len(outs) != 1:
        ctx.count("not-exactly-one-outcome (C01's concern)")
        return False
    out = outs[0]
    delivered = out.payload["details"] or {}
    values = [v[1] for v in delivered.values()]
    names = sorted(delivered)
    # ---- payloads knowingly overwritten by a user addDetail over a generated name -------------
    user_names = {}
    lost_payloads = []
    expected_user = {}
    for e in env.tags("detail", "lazy"):
        tag, name, pid, existing = e[1], e[2], e[3], e[4]
        if existing is not None:
            if name in user_names:
                expected_user.pop(user_names[name], None)  # user overwrote own earlier detail
            else:
                lost_payloads.append(bytes.fromhex(existing))
        user_names[name] = pid
        if tag == "detail":
            expected_user[pid] = ("bytes", bytes.fromhex(e[5]), e[6])
        else:
            expected_user[pid] = ("cell", e[5], None)

    def excused(token_bytes):
        return any(token_bytes in lp for lp in lost_payloads)

    detail = lambda: {"outcome": out.name, "delivered": {k: v[1][:80] for k, v in delivered.items()},  # noqa
                      "raised": [(k, t) for k, t, _ in env.raised],
                      "log": [e[1:] for e in env.events][:50]}
    nontrivial = False
    # ---- (a) user details -----------------------------------------------------------------------
    pool = list(values)
    for pid, (how, data, ctype) in expected_user.items():
        nontrivial = True
        if how == "cell":
            want = cells_at["cells"].get(data)
            ok = want in pool
            ctx.check(ok, "lazy.bytes-at-reporting-time",
                      lambda: {"pid": pid, "want": want, **detail()})
        else:
            want = data
            ok = want in pool
            ctx.check(ok, "detail.user-payload-delivered", lambda: {"pid": pid, "want": want, **detail()})
        if ok:
            pool.remove(want)
    # delivered under the user's name, or a renamed variant of it? (never under another base name)
    # ---- (b) mismatch details -------------------------------------------------------------------
    for e in env.tags("expect_mismatch", "assert_mismatch"):
        for dname, h in e[3]:
            nontrivial = True
            want = cells_at["cells"].get(h[5:]) if h.startswith("cell:") else bytes.fromhex(h)
            ok = want in pool
            ctx.check(ok, "mismatch.detail-delivered",
                      lambda: {"mismatch": e[2], "name": dname, "want": want, **detail()},
                      mechanism="user-adddetail-over-generated-name" if excused(want) else None)
            if ok:
                pool.remove(want)
    # every failed expectThat leaves a 'Failed expectation' stack trace naming its mismatch
    for e in env.tags("expect_mismatch"):
        tokn = (programs.MISMATCH_PREFIX + e[2]).encode("utf8")
        hits = [n for n, v in delivered.items() if n.startswith("Failed expectation") and tokn in v[1]]
        ctx.check(len(hits) == 1, "expect.failed-expectation-detail",
                  lambda: {"eid": e[2], "hits": hits, **detail()},
                  mechanism="user-adddetail-over-generated-name" if excused(tokn) else None)
    # ---- (c) fixture details --------------------------------------------------------------------
    def fixture_details(fid, spec):
        for dname, h in spec.get("details", []):
            yield fid, dname, bytes.fromhex(h)
        if spec.get("nested") is not None:
            yield from fixture_details(fid + ".n", spec["nested"])

    started = {e[2] for e in env.tags("fixture_setup")}
    for e in env.tags("use_fixture"):
        fid = e[2]
        spec = _find_fixture_spec(program, fid)
        for f, dname, want in fixture_details(fid, spec):
            if f not in started:
                continue  # that (nested) fixture never began its _setUp
            if not _details_attached(spec, f, fid):
                continue
            nontrivial = True
            ok = want in pool
            ctx.check(ok, "fixture.detail-delivered",
                      lambda: {"fixture": f, "name": dname, "want": want, **detail()},
                      mechanism="user-adddetail-over-generated-name" if excused(want) else None)
            if ok:
                pool.remove(want)
    # ---- (d) skip reason ------------------------------------------------------------------------
    if out.name == "addSkip":
        reason = delivered.get("reason")
        # the reason is the reported skip's own: what expectFailure() noted earlier in the run is not it
        toks = [t for k, t, _ in env.raised if k in ("skip", "skipsub", "skip2")]
        toks += ["" for k, t, _ in env.raised if k == "skip_empty"]
        toks += [t for k, t, _ in env.raised if k.startswith("custom:")]
        if programs.is_decor_skip(program):
            toks.append(program.get("decor_reason", "DECOR-skip"))
        if reason is None and out.payload["reason"] is not None:
            got = out.payload["reason"]
        else:
            got = reason[1].decode("utf8", "replace") if reason else None
        ctx.check(got in toks, "skip.reason-delivered", lambda: {"reason": got, "candidates": toks, **detail()})
    # ---- (e) one traceback per raised failure / error --------------------------------------------
    tb = {n: v[1] for n, v in delivered.items() if TB_NAME.match(n)}
    for kind, tok, exc in env.raised:
        if kind not in TRACEBACK_KINDS and not kind.startswith("custom:"):
            continue
        nontrivial = True
        needle = (programs.MISMATCH_PREFIX + tok if kind == "mismatch" else tok).encode("utf8")
        hits = [n for n, v in tb.items() if needle in v]
        fixture_tok = tok.startswith("FX")
        # exceptions that compare equal / the same object raised by several stages share a token:
        # one traceback per RAISE
        n_raises = sum(1 for k2, t2, _ in env.raised if t2 == tok and
                       (k2 in TRACEBACK_KINDS or k2.startswith("custom:")))
        ok = len(hits) >= 1 if fixture_tok else len(hits) == n_raises
        n_lost = sum(1 for lp in lost_payloads if needle in lp)
        ctx.check(ok, "traceback.one-per-raised-failure",
                  lambda: {"kind": kind, "token": tok, "hits": hits, "raises": n_raises, **detail()},
                  mechanism="user-adddetail-over-generated-name"
                  if (n_lost and ((fixture_tok and not hits) or len(hits) + n_lost == n_raises)) else None)
    # ---- (f) addOnException handlers ---------------------------------------------------------------
    raise_events = env.tags("raise")
    regs = {} if second else {e[2]: e[0] for e in env.tags("onexc_reg")}
    for hid, reg_seq in regs.items():
        for (kind, tok, exc), rev in zip(env.raised, raise_events):
            if rev[0] < reg_seq or tok.startswith("FX"):
                continue
            nontrivial = True
            calls = [c for c in env.onexc_calls if c[1] == hid and c[2] is exc]
            n_same = sum(1 for (k2, t2, e2), r2 in zip(env.raised, raise_events) if e2 is exc and r2[0] >= reg_seq)
            ctx.check(len(calls) == n_same and all(c[0] < out.seq for c in calls), "onexc.called-once-before-outcome",
                      lambda: {"handler": hid, "exception": (kind, tok), "calls": len(calls),
                               "call_seq": [c[0] for c in calls], "outcome_seq": out.seq, **detail()})
    # ---- nothing delivered twice ----------------------------------------------------------------
    holders = {}
    for n, v in delivered.items():
        if TB_NAME.match(n) or n == "reason" or n.startswith("Failed expectation"):
            continue
        for t in set(re.findall(rb"<<[PDF]\d+>>", v[1])):
            holders.setdefault(t, []).append(n)
    dup = {t.decode(): ns for t, ns in holders.items() if len(ns) > 1}
    ctx.check(not dup, "detail.no-payload-delivered-twice", lambda: {"dup": dup, **detail()})
    # ---- a subclass's addDetail is the way in ---------------------------------------------------------
    if program.get("hook_adddetail") and not env.tags("use_fixture"):
        # (fixture details are copied in by gather_details, which writes the dict itself: programs with fixtures are
        # left out)  Everything else the outcome carries - tracebacks, reasons, failed expectations, mismatch details -
        # was attached through the overridable addDetail
        hooked = {e[2] for e in env.tags("adddetail_hook")}
        around = sorted(n for n in delivered if n not in hooked)
        ctx.check(not around, "detail.attached-through-addDetail",
                  lambda: {"delivered without passing the subclass's addDetail": around, "hooked": sorted(hooked), **detail()})
    return nontrivial


def _find_fixture_spec(program, fid):
    def walk(actions):
        for a in actions:
            if a[0] == "fixture" and a[1] == fid:
                return a[2]
            if a[0] == "cleanup":
                r = walk(a[2])
                if r is not None:
                    return r
        return None
    for stage in ("su_pre", "su", "test", "td_pre", "td"):
        r = walk(program.get(stage, []))
        if r is not None:
            return r
    raise KeyError(fid)


def _details_attached(spec, f, fid):
    """A fixture attaches its details before anything in its _setUp can raise (interpreter order)."""
    return True


def x_equal_details(ctx, case):
    """Details that COMPARE EQUAL (Content.__eq__: same type, same bytes) are still details of their own: two fixtures
    whose 'log' is empty / holds the same line, a user detail equal to a fixture's - each arrives under a name of its
    own (renamed, never dropped)."""
    import re
    import fixtures
    import testtools
    from testtools.content import Content
    from testtools.content_type import UTF8_TEXT
    chunkings = case["chunkings"]          # one list of hex chunks per holder; all the same bytes

    def content(chunks):
        return Content(UTF8_TEXT, lambda c=chunks: [bytes.fromhex(h) for h in c])

    class Fx(fixtures.Fixture):
        def __init__(self, chunks):
            super().__init__()
            self.chunks = chunks

        def _setUp(self):
            self.addDetail("log", content(self.chunks))
            if case.get("setup_fails"):
                raise ValueError("fixture broke")

    class T(testtools.TestCase):
        def test(self):
            if case.get("user_first"):
                self.addDetail("log", content(chunkings[0]))
            for ch in chunkings[1 if case.get("user_first") else 0:]:
                try:
                    self.useFixture(Fx(ch))
                except Exception:  # noqa - (MultipleExceptions holding the fixture's error: the test carries on)
                    pass
            if case.get("fail"):
                self.fail("the test fails")
    log = recorders.Log()
    T("test").run(recorders.ExtRecorder(log))
    outs = [e for e in log.events if e.name in recorders.OUTCOMES]
    got = (outs[0].payload["details"] or {}) if len(outs) == 1 else {}
    data = b"".join(bytes.fromhex(h) for h in chunkings[0])
    logs = sorted(n for n, (ctype, b) in got.items() if re.fullmatch(r"log(-\d+)?", n) and b == data)
    ctx.check(len(outs) == 1 and len(logs) == len(chunkings), "fixture.detail-delivered",
              lambda: {"holders of an equal 'log' detail": len(chunkings), "delivered": sorted(got), "case": case})
    return True


SUBCHECKS = {"prog": x_prog, "rerun": x_rerun, "equal_details": x_equal_details}

FEATURES = ("details", "expect", "mismatch_details", "fixture", "onexc", "nested_cleanup", "decor",
            "own_exc", "force", "clone", "eq_exc", "peek", "old_style_fixture")


def _sanitise(prog):
    """Keep fixtures inside the stated domain: no BaseException from a fixture's _setUp."""
    def walk(actions):
        for a in actions:
            if a[0] == "fixture":
                fix(a[2])
            elif a[0] == "cleanup":
                walk(a[2])

    def fix(spec):
        if spec.get("setup") == "kbd":
            spec["setup"] = "error"
        if spec.get("nested") is not None:
            fix(spec["nested"])
    for stage in ("su_pre", "su", "test", "td_pre", "td"):
        walk(prog.get(stage, []))
    return prog


def program_has_late_state(prog):
    """Programs whose second run legitimately differs (handlers inserted into exception_handlers at
    run time persist)."""
    return "'handler'" in repr(prog)


def targeted(ctx):
    """Small exhaustive family: k raised errors x user details pre-seeded on generated names."""
    names = ["traceback", "traceback-1", "traceback-2"]
    n = 0
    for k in range(0, 4):
        for mask in range(8):
            for where in ("su", "test"):
                for multi in (False, True):
                    if not ctx.mine():
                        continue
                    tok = progen.Tok()
                    p = {"su_pre": [], "su": [], "test": [], "td": [], "td_pre": []}
                    for i, nm in enumerate(names):
                        if mask >> i & 1:
                            pid = tok("P")
                            p[where].append(["detail", nm, pid, [pid.encode().hex()], "bin"])
                    raises = [["raise", "error", tok("ER")] for _ in range(k)]
                    if multi and k:
                        p["test"].append(["multi", raises, tok("MM")])
                    else:
                        for i, r in enumerate(raises):
                            if i == 0:
                                p["test"].append(r)
                            else:
                                p["su_pre"].append(["cleanup", "c%d" % i, [r]])
                    n += 1
                    ctx.execute("prog", {"prog": p})
    ctx.note_space("0..3 raised errors (separately or as one MultipleExceptions) x every subset of "
                   "user details named traceback / traceback-1 / traceback-2 attached beforehand", n)
    # many details competing for one name in ONE test: 9, 10, 11 ... 14 failed expectations whose mismatches all bring
    # a detail called 'foo' (the suffixes pass from one digit to two)
    for k in (9, 10, 11, 12, 14):
        for where in ("test", "su"):
            if ctx.mine():
                tok = progen.Tok()
                p = {"su_pre": [], "su": [], "test": [], "td": [], "td_pre": []}
                for _ in range(k):
                    p[where].append(["expect", tok("E"), False, [["foo", tok("D").encode().hex()]]])
                ctx.execute("prog", {"prog": p})
    n = 0
    for k in range(1, 4):
        for mask in range(8):
            if not ctx.mine():
                continue
            tok = progen.Tok()
            p = {"su_pre": [], "su": [], "test": [], "td": [], "td_pre": []}
            for i, nm in enumerate(["Failed expectation", "Failed expectation-1", "mm"]):
                if mask >> i & 1:
                    pid = tok("P")
                    p["su"].append(["detail", nm, pid, [pid.encode().hex()], "bin"])
            for i in range(k):
                p["test"].append(["expect", tok("E"), False, [["mm", tok("D").encode().hex()]]])
            n += 1
            ctx.execute("prog", {"prog": p})
    ctx.note_space("1..3 failed expectThat (each with a detail 'mm') x every subset of user details "
                   "named Failed expectation / Failed expectation-1 / mm", n)
    n = 0
    for setup in ("ok", "error", "fail"):
        for nested in (None, "ok", "error"):
            for mask in range(8):
                if not ctx.mine():
                    continue
                tok = progen.Tok()
                p = {"su_pre": [], "su": [], "test": [], "td": [], "td_pre": []}
                for i, nm in enumerate(["log", "log-1", "traceback"]):
                    if mask >> i & 1:
                        pid = tok("P")
                        p["su"].append(["detail", nm, pid, [pid.encode().hex()], "bin"])
                if mask & 1:
                    p["su"].append(["expect", tok("E"), False, [["log", tok("D").encode().hex()]]])
                spec = {"details": [["log", tok("F").encode().hex()], ["traceback", tok("F").encode().hex()]],
                        "setup": setup, "cleanup": "ok"}
                if nested is not None:
                    spec["nested"] = {"details": [["log", tok("F").encode().hex()]], "setup": nested,
                                      "cleanup": "ok"}
                p["test"].append(["fixture", tok("X"), spec])
                n += 1
                ctx.execute("prog", {"prog": p})
    ctx.note_space("fixture (ok / failing _setUp) x nested fixture (none / ok / failing) carrying "
                   "details 'log','traceback' x user details on the same names", n)


def run(ctx):
    rng = ctx.rng
    targeted(ctx)
    n = 0
    for data in ([], ["6c696e650a"], ["6c69", "6e650a"]):
        for k in (2, 3):
            for user_first in (False, True):
                for fail in (False, True):
                    for setup_fails in (False, True):
                        if ctx.mine():
                            n += 1
                            alt = [["6c", "696e650a"]] if data else [[""]]
                            chunkings = ([list(data)] * (k - 1)) + (alt if k > 2 or user_first else [list(data)])
                            ctx.execute("equal_details", {"chunkings": chunkings, "user_first": user_first, "fail": fail,
                                                          "setup_fails": setup_fails})
    ctx.note_space("2-3 holders (fixtures, the test itself) of details that compare equal (empty, one line, chunked "
                   "differently) x passing / failing test x fixtures setting up / failing", n)
    ctx.notes["random_cases"] = True
    for i in range(ctx.scale(4000, 300000)):
        if ctx.out_of_time():
            break
        prog = progen.random_program(rng, features=FEATURES, p_raise=0.4, max_cleanups=4)
        case = {"prog": _sanitise(prog)}
        if rng.random() < 0.3:
            prog["hook_adddetail"] = True
        if rng.random() < 0.15 and not prog.get("decor"):
            prog["runner_attaches"] = True
        r = rng.random()
        if r < 0.15:
            case["runner"] = "sync"
        elif r < 0.3 and not prog.get("decor"):
            case["runner"] = rng.choice(["async", "async_store"])
        ctx.execute("rerun" if rng.random() < 0.2 and not program_has_late_state(prog) else "prog", case)
