"""C06 - matcher verdicts obey their declared semantics compositionally."""

import atexit
import itertools
import shutil
import tempfile

from .. import matchgen as G

PROPERTY = "C06"
LEVEL = "exploration"
RULE = (
    "a case is (typed matcher expression, value of its domain).  Expressions are trees of the stock "
    "combinators over leaf matchers; every node has a domain (int, str, bytes, list[int], list[str], "
    "dict[str,int], object with attributes, exc_info, nullary callable, callable emitting warnings, "
    "path in a scratch directory) and children are generated for the domain the parent feeds them.  "
    "Enumerated: every leaf x every pool value per domain; every unary / binary combination of a "
    "reduced leaf pool (depth 2); every triple of 'accept-set' matchers over {1,2,3} for "
    "MatchesSetwise against every value list of length 2..3; random trees of depth <= 4.  Each "
    "expression is built three times (different object addresses) and matched twice on one "
    "instance; the oracle sem(expr, value) is written with plain Python predicates and brute-force "
    "perfect matching.  Distinct = canonical JSON of (expr, value); non-trivial = expression has at "
    "least one combinator or the leaf is not Always/Never."
)
REQUIRED = {
    "mon:verdict==documented-predicate": 5000,
    "mon:deterministic": 5000,
    "mon:matcher-not-mutated": 5000,
    "mon:value-not-mutated": 5000,
    "mon:setwise==exists-perfect-matching": 300,
    "mon:raises.non-Exception-propagates": 10,
}
ASSUMPTIONS = [
    "values are in the matcher's domain (LessThan never sees a str; FileContains sees files or missing "
    "paths; Warnings sees callables that do not raise)",
    "DocTestMatches is checked for flag-free literal examples only (equality modulo one trailing newline)",
    "callables raising non-Exception errors are only placed under Raises reached through unary "
    "combinators, so evaluation order of n-ary combinators cannot change whether they are called",
]

_env = None


def env():
    global _env
    if _env is None:
        d = tempfile.mkdtemp(prefix="tvm-c06-")
        atexit.register(shutil.rmtree, d, True)
        _env = G.Env(d)
    return _env


def verdict(m, v):
    try:
        mm = m.match(v)
    except BaseException as e:  # noqa
        return ("raised", type(e).__name__), None
    return (mm is None), mm


def x_expr(ctx, case):
    E = env()
    expr, raw = case["expr"], case["value"]
    try:
        want = G.sem(expr, G.mkvalue(raw, E), E, raw)
    except G.Propagates as p:
        want = ("raised", p.exc_type.__name__)
    fs_before = E.snapshot() if raw[0] == "path" else None
    m1, m2, m3 = G.build(expr, E), G.build(expr, E), G.build(expr, E)
    snap_m = G.snapshot(m1)
    v1 = G.mkvalue(raw, E)
    snap_v = G.snapshot(v1) if raw[0] not in ("call", "exc") else None
    import warnings as _w
    w_before = (list(_w.filters), _w.showwarning, getattr(_w, "_showwarnmsg_impl", None))
    r1, mm = verdict(m1, v1)
    w_after = (list(_w.filters), _w.showwarning, getattr(_w, "_showwarnmsg_impl", None))
    if raw[0] == "call":
        # a matcher that records warnings puts the process's warning machinery back, also when the callable raised
        ctx.check(w_after == w_before, "deterministic",
                  lambda: {"expr": expr, "value": raw, "the warnings filters / hooks after match() differ from before": True,
                           "filters before": len(w_before[0]), "after": len(w_after[0])})
    r1b, _ = verdict(m1, v1)
    r2, _ = verdict(m2, G.mkvalue(raw, E))
    r3, _ = verdict(m3, G.mkvalue(raw, E))
    detail = lambda: {"expr": expr, "value": raw, "verdicts": [r1, r1b, r2, r3], "want": want,  # noqa
                      "mismatch": None if mm is None else _safe_describe(mm)}
    ctx.check(r1 == want, "verdict==documented-predicate", detail)
    if expr[0] == "MatchesSetwise" or G.uses(expr, ("MatchesSetwise",)):
        ctx.check(r1 == want and r2 == want and r3 == want, "setwise==exists-perfect-matching", detail)
    if isinstance(want, tuple):
        ctx.check(r1 == want, "raises.non-Exception-propagates", detail)
    ctx.check(r1 == r1b == r2 == r3, "deterministic", detail)
    ctx.check(G.snapshot(m1) == snap_m, "matcher-not-mutated",
              lambda: {"before": snap_m, "after": G.snapshot(m1), **detail()})
    if snap_v is not None:
        ctx.check(G.snapshot(v1) == snap_v, "value-not-mutated",
                  lambda: {"before": snap_v, "after": G.snapshot(v1), **detail()})
    elif fs_before is not None:
        ctx.check(E.snapshot() == fs_before, "value-not-mutated", detail)
    else:
        ctx.count("mon:value-not-mutated")
    if mm is not None:
        ctx.check(hasattr(mm, "describe") and hasattr(mm, "get_details"), "mismatch-is-a-Mismatch",
                  lambda: {"returned": repr(mm), **detail()})
    return expr[0] not in ("Always", "Never")


def _safe_describe(mm):
    try:
        return mm.describe()
    except Exception as e:  # noqa
        return "describe() raised %r" % (e,)


def x_sequence(ctx, case):
    """One matcher instance matched against a sequence of values: every verdict is the documented
    predicate of THAT value (no state carried from earlier matches, also across instances)."""
    E = env()
    expr, raws = case["expr"], case["values"]
    m = G.build(expr, E)
    got, want = [], []
    for raw in raws:
        try:
            w = G.sem(expr, G.mkvalue(raw, E), E, raw)
        except G.Propagates as p:
            w = ("raised", p.exc_type.__name__)
        want.append(w)
        got.append(verdict(m, G.mkvalue(raw, E))[0])
    ctx.check(got == want, "verdict==documented-predicate",
              lambda: {"expr": expr, "values": raws, "got": got, "want": want})
    return True


def x_exc_nontuple(ctx, case):
    """MatchesException applied to something that is not an exc_info tuple (the exception instance itself,
    None, a list of three, text): never a match - alone, negated, annotated, or as one branch of MatchesAny."""
    from testtools import matchers as M
    E = env()
    m = G.build(case["expr"], E)
    value = {"instance": ValueError("x"), "none": None, "text": "ValueError", "int": 3,
             "list3": [ValueError, ValueError("x"), None], "class": ValueError}[case["value"]]
    wrapped = {"plain": m, "annotate": M.Annotate("note", m), "any": M.MatchesAny(m, M.Never()),
               "all": M.MatchesAll(M.Always(), m), "not-not": M.Not(M.Not(m))}[case["wrap"]]
    got = verdict(wrapped, value)
    ctx.check(got[0] is False, "verdict==documented-predicate",
              lambda: {"expr": case["expr"], "wrapped": case["wrap"], "value (not an exc_info tuple)": repr(value),
                       "verdict": got[0], "want": False})
    return True


def x_extension(ctx, case):
    """Matchers are meant to be composed with user-defined ones: (a) a recursive grammar - a MatchesSetwise one of
    whose constituents (through a small lazy matcher) is that same MatchesSetwise again, so that match() is
    re-entered while it is running; (b) a MatchesAll SUBCLASS that overrides match() (here: it matches the negated
    value) nested inside a plain MatchesAll.  The verdict is the documented one in both cases."""
    from testtools import matchers as M

    class Lazy:
        def __init__(self, thunk):
            self.thunk = thunk

        def __str__(self):
            return "Lazy(...)"

        def match(self, value):
            return self.thunk().match(value)
    if case["what"] == "bag":
        # bag := [] | an unordered triple of 1, 2 and another bag
        bag = M.MatchesSetwise(M.Equals(1), M.Equals(2), Lazy(lambda: M.MatchesAll(
            M.IsInstance(list), M.MatchesAny(M.Equals([]), bag), first_only=True)))

        def is_bag(x):
            if x == []:
                return True
            if not isinstance(x, list) or len(x) != 3:
                return False
            rest = list(x)
            for want in (1, 2):
                hit = [i for i, y in enumerate(rest) if not isinstance(y, list) and y == want]
                if not hit:
                    return False
                rest.pop(hit[0])
            return isinstance(rest[0], list) and is_bag(rest[0])
        value = case["value"]
        if not isinstance(value, list) or len(value) != 3:
            return False
        got = verdict(bag, value)[0]
        ctx.check(got == is_bag(value), "verdict==documented-predicate",
                  lambda: {"matcher": "bag := MatchesSetwise(Equals(1), Equals(2), Lazy(bag or Equals([])))", "value": value,
                           "verdict": got, "want": is_bag(value)})
        return True

    class NegAll(M.MatchesAll):
        def match(self, value):
            return super().match(-value)
    inner = [G.build(e, env()) for e in case["inner"]]
    outer = [G.build(e, env()) for e in case["outer"]]
    m = M.MatchesAll(*(outer + [NegAll(*inner, first_only=case["first_only"])]), first_only=case["first_only"])
    v = case["value"]
    want = all(G.sem(e, v, env()) for e in case["outer"]) and all(G.sem(e, -v, env()) for e in case["inner"])
    got = verdict(m, v)[0]
    ctx.check(got == want, "verdict==documented-predicate",
              lambda: {"matcher": "MatchesAll(%s, NegAll(%s))" % (case["outer"], case["inner"]), "value": v,
                       "verdict": got, "want": want})
    return True


def x_fs_later(ctx, case):
    """Filesystem matchers are predicates of the filesystem AS IT IS WHEN match() IS CALLED: a SamePath / FileContains
    / DirContains / HasPermissions / PathExists matcher built earlier and kept (a module-level constant, a fixture
    attribute) gives, after a symlink was retargeted, a file rewritten, the working directory changed, the verdict a
    freshly built one gives - the documented predicate of the value and the world now."""
    import os
    import shutil
    import tempfile
    from testtools import matchers as M
    root = os.path.realpath(tempfile.mkdtemp(prefix="tvm-c06-fs-"))
    cwd0 = os.getcwd()
    try:
        j = lambda *a: os.path.join(root, *a)  # noqa: E731
        for d in ("A", "B"):
            os.mkdir(j(d))
            with open(j(d, "rel.txt"), "w") as f:
                f.write("in " + d)
        with open(j("f1"), "w") as f:
            f.write("one")
        with open(j("f2"), "w") as f:
            f.write("two")
        os.symlink(j("f1"), j("link"))
        os.chdir(j("A"))
        built = []          # (spec, matcher)

        def mk(spec):
            k = spec[0]
            if k == "SamePath":
                return M.SamePath(spec[1] if spec[1] == "rel.txt" else j(spec[1]))
            if k == "FileContains":
                return M.FileContains(spec[1])
            if k == "DirContains":
                return M.DirContains(spec[1])
            if k == "HasPermissions":
                return M.HasPermissions(spec[1])
            return M.PathExists()

        def want(spec, value):
            k = spec[0]
            v = value if value == "rel.txt" else j(value)
            if k == "SamePath":
                mine = spec[1] if spec[1] == "rel.txt" else j(spec[1])
                return os.path.realpath(os.path.abspath(mine)) == os.path.realpath(os.path.abspath(v))
            if k == "PathExists":
                return os.path.exists(v)
            if not os.path.exists(v):
                return None if k == "HasPermissions" else False      # (HasPermissions is documented for existing paths)
            if k == "FileContains":
                if os.path.isdir(v):
                    return None         # (reading a directory: an error, not a verdict)
                with open(v) as f:
                    return f.read() == spec[1]
            if k == "DirContains":
                return os.path.isdir(v) and sorted(os.listdir(v)) == sorted(spec[1])
            return oct(os.stat(v).st_mode)[-4:] == spec[1]
        for op in case["ops"]:
            if op[0] == "build":
                built.append((op[1], mk(op[1])))
            elif op[0] == "retarget":
                os.unlink(j("link"))
                os.symlink(j(op[1]), j("link"))
            elif op[0] == "chdir":
                os.chdir(j(op[1]))
            elif op[0] == "write":
                with open(j(op[1]), "w") as f:
                    f.write(op[2])
            elif op[0] == "chmod":
                if os.path.exists(j(op[1])):
                    os.chmod(j(op[1]), op[2])
            elif op[0] == "touch":
                with open(j(op[1]), "w") as f:
                    f.write("")
            elif op[0] == "remove":
                if os.path.lexists(j(op[1])):
                    os.unlink(j(op[1]))
            elif op[0] == "match" and op[1] < len(built):
                spec, m = built[op[1]]
                w = want(spec, op[2])
                if w is None:
                    continue
                v = op[2] if op[2] == "rel.txt" else j(op[2])
                try:
                    kept = m.match(v) is None
                    fresh = mk(spec).match(v) is None
                except Exception as e:  # noqa
                    kept = fresh = "match raised %r" % (e,)
                ctx.check(kept == w and fresh == w, "verdict==documented-predicate",
                          lambda: {"matcher": spec, "value": op[2], "the matcher built earlier says": kept,
                                   "one built now says": fresh, "the filesystem says": w, "case": case})
        return any(op[0] == "match" for op in case["ops"])
    finally:
        os.chdir(cwd0)
        shutil.rmtree(root, ignore_errors=True)


SUBCHECKS = {"fs_later": x_fs_later, "expr": x_expr, "sequence": x_sequence, "exc_nontuple": x_exc_nontuple, "extension": x_extension}

DOMS = ["int", "str", "bytes", "list", "lstr", "dict", "obj", "exc", "call", "warncall", "path"]


def accept(S):
    return ["MatchesAny", [["Equals", x] for x in S]] if len(S) != 1 else ["Equals", S[0]]


def run(ctx):
    rng = ctx.rng
    n = 0
    specs = [["SamePath", "link"], ["SamePath", "rel.txt"], ["SamePath", "f1"], ["SamePath", "A/../f2"],
             ["FileContains", "one"], ["FileContains", "in B"], ["DirContains", ["rel.txt"]],
             ["DirContains", ["new", "rel.txt"]], ["HasPermissions", "0644"], ["HasPermissions", "0600"], ["PathExists"]]
    values = ["f1", "f2", "link", "rel.txt", "A/rel.txt", "B/rel.txt", "A", "B", "new", "A/new"]
    for i in range(ctx.scale(400, 20000)):
        ops = []
        nb = 0
        for _ in range(rng.randint(3, 12)):
            r = rng.random()
            if r < 0.3 or not nb:
                ops.append(["build", rng.choice(specs[:4] if rng.random() < 0.5 else specs)])
                nb += 1
            elif r < 0.65:
                ops.append(["match", rng.randrange(nb), rng.choice(values)])
            else:
                ops.append(rng.choice([["retarget", "f2"], ["retarget", "f1"], ["retarget", "A/rel.txt"], ["chdir", "B"],
                                       ["chdir", "A"], ["chdir", "."], ["write", "f1", "two"], ["write", "f2", "one"],
                                       ["chmod", "f1", 0o600], ["chmod", "f2", 0o644], ["touch", "A/new"], ["touch", "new"],
                                       ["remove", "A/new"], ["remove", "f2"]]))
        n += 1
        ctx.execute("fs_later", {"ops": ops})
    ctx.note_space("filesystem matchers kept across changes of the filesystem / working directory (random histories)", n, False)
    n = 0
    # every leaf x every pool value
    for dom in DOMS:
        for leaf in G.leaves(dom):
            for raw in G.domain_values(dom, leaf):
                if ctx.mine():
                    n += 1
                    ctx.execute("expr", {"expr": leaf, "value": raw}, sample=(n % 499 == 0))
    ctx.note_space("every leaf matcher x every pool value of its domain (11 domains)", n)
    # depth 2 over a reduced leaf pool
    n = 0
    reduced = {
        "int": [["Equals", 1], ["LessThan", 2], ["GreaterThan", 0], ["Never"], ["Always"]],
        "str": [["StartsWith", "a"], ["EndsWith", "b"], ["Contains", "\xe9"], ["MatchesRegex", "a.*c", 0],
                ["Equals", ""]],
        "list": [["HasLength", 2], ["Contains", 1], ["SameMembers", [1, 2]], ["Equals", [1, 2]]],
        "dict": [["KeysEqual", ["a"]], ["Equals", {"a": 1}], ["HasLength", 2]],
    }
    for dom, pool in reduced.items():
        exprs = []
        for a in pool:
            exprs += [["Not", a], ["Annotate", "n", a], ["MatchesAny", [a]], ["MatchesAll", [a], False]]
            for b in pool:
                exprs += [["MatchesAny", [a, b]], ["MatchesAll", [a, b], False], ["MatchesAll", [a, b], True],
                          ["Not", ["MatchesAny", [a, b]]]]
        exprs += [["MatchesAny", []], ["MatchesAll", [], False]]
        if dom == "list":
            ip = reduced["int"]
            for a in ip:
                exprs += [["AllMatch", a], ["AnyMatch", a], ["MatchesListwise", [a], False],
                          ["MatchesSetwise", [a]]]
                for b in ip:
                    exprs += [["MatchesListwise", [a, b], False], ["MatchesListwise", [a, b], True],
                              ["MatchesSetwise", [a, b]]]
            exprs += [["MatchesListwise", [], False], ["MatchesSetwise", []]]
        if dom == "dict":
            ip = reduced["int"]
            for op in ("MatchesDict", "ContainsDict", "ContainedByDict"):
                exprs.append([op, {}])
                for a in ip:
                    exprs.append([op, {"a": a}])
                    for b in ip[:3]:
                        exprs.append([op, {"a": a, "b": b}])
        for e in exprs:
            for raw in G.values_of(dom):
                if ctx.mine():
                    n += 1
                    ctx.execute("expr", {"expr": e, "value": raw}, sample=(n % 997 == 0))
    ctx.note_space("depth-2 combinations of a reduced leaf pool (Not/Annotate/MatchesAny/MatchesAll/"
                   "AllMatch/AnyMatch/MatchesListwise/MatchesSetwise/dict matchers) x pool values", n)
    # MatchesSetwise: all triples of accept-sets over {1,2,3}
    n = 0
    subsets = [list(c) for k in (1, 2, 3) for c in itertools.combinations([1, 2, 3], k)]
    value_lists = [[1, 2, 3], [3, 2, 1], [2, 3, 1], [1, 1, 2], [2, 2, 2], [1, 2], [3, 1, 3]]
    stride = 1 if not ctx.quick else 3
    for i, trip in enumerate(itertools.product(subsets, repeat=3)):
        if stride > 1 and (i + ctx.seed) % stride:
            continue
        e = ["MatchesSetwise", [accept(S) for S in trip]]
        for vl in value_lists:
            if ctx.mine():
                n += 1
                ctx.execute("expr", {"expr": e, "value": ["list", vl]}, sample=(n % 997 == 0))
    ctx.note_space("MatchesSetwise over every triple of accept-set matchers on {1,2,3} (7^3) x 7 value "
                   "lists" + (" (1/3 slice rotated by seed)" if stride > 1 else ""), n, stride == 1)
    if not ctx.quick:
        n = 0
        for i, quad in enumerate(itertools.product(subsets, repeat=4)):
            if i % 3 != ctx.seed % 3:
                continue
            e = ["MatchesSetwise", [accept([x if x < 3 else 4 for x in S]) for S in quad[:2]]
                 + [accept(S) for S in quad[2:]]]
            for vl in ([1, 2, 3, 4], [4, 3, 2, 1], [1, 2, 2, 4]):
                if ctx.mine():
                    n += 1
                    ctx.execute("expr", {"expr": e, "value": ["list", vl]}, sample=False)
        ctx.note_space("MatchesSetwise over quadruples of accept-set matchers (1/3 slice) x 3 value lists",
                       n, False)
    # non-Exception errors through Raises
    n = 0
    base_exprs = [["Raises", None], ["raises", "ValueError"], ["raises", "KeyboardInterrupt"],
                  ["Raises", ["MatchesException", ["type", "SystemExit"]]],
                  ["Raises", ["MatchesException", ["type", "GeneratorExit"]]],
                  ["Raises", ["Never"]], ["Raises", ["Always"]],
                  ["Not", ["Raises", None]], ["Annotate", "x", ["raises", "KeyError"]],
                  ["Not", ["Annotate", "y", ["Raises", ["MatchesException", ["type", "KeyboardInterrupt"]]]]]]
    for e in base_exprs:
        for raw in G.values_of("callbase") + G.values_of("call"):
            if ctx.mine():
                n += 1
                ctx.execute("expr", {"expr": e, "value": raw})
    ctx.note_space("Raises under unary combinators x callables raising KeyboardInterrupt / SystemExit / "
                   "GeneratorExit / Exceptions / returning", n)
    # random trees
    # one AfterPreprocessing instance over values that are == and hash alike but preprocess differently
    import itertools as _it
    n = 0
    for pre, inner in (("tostr", ["Equals", "1"]), ("tostr", ["Equals", "True"]), ("tostr", ["Contains", "."]),
                       ("neg", ["Equals", -1]), ("neg_partial", ["IsInstance", ["int"]])):
        for order in _it.permutations([["int", 1], ["int", True], ["int", 1.0]]):
            for annotate in (True, False):
                if ctx.mine():
                    n += 1
                    ctx.execute("sequence", {"expr": ["AfterPreprocessing", pre, inner, annotate], "values": list(order)})
    ctx.note_space("one AfterPreprocessing instance over the orders of 1, True, 1.0: 5 matchers x 6 orders x annotate", n)
    # one TarballContains built from a one-shot iterable of paths, consulted several times
    n = 0
    for paths in (["p", "q/r"], ["q/r", "p"], ["only"], []):
        for values in (["t.tar", "t.tar", "t1.tar"], ["t1.tar", "t.tar", "t.tar"], ["t.tar", "t1.tar", "t.tar", "t1.tar"]):
            for wrap in (False, True):
                if ctx.mine():
                    n += 1
                    e = ["TarballContains", paths, "iter"]
                    ctx.execute("sequence", {"expr": ["Not", e] if wrap else e, "values": [["path", v] for v in values]})
    ctx.note_space("one TarballContains over an iterator of paths matched 3-4 times: 4 path lists x 3 orders x 2", n)
    n = 0
    for leaf in G.leaves("exc"):
        if leaf[0] != "MatchesException":
            continue
        for value in ("instance", "none", "text", "int", "list3", "class"):
            for wrap in ("plain", "annotate", "any", "all", "not-not"):
                if ctx.mine():
                    n += 1
                    ctx.execute("exc_nontuple", {"expr": leaf, "value": value, "wrap": wrap})
    ctx.note_space("every MatchesException leaf x 6 values that are not exc_info tuples x 5 wrappings", n)
    n = 0
    atoms = [1, 2, [], [1, 2, []], [2, [], 1], [[], 2, 1], [1, 2], [1, 1, []], [2, 1, [1, [], 2]], [1, 2, [2, 1, [1, 2]]], 3]
    for a in atoms:
        for b in atoms:
            for c in atoms:
                if ctx.mine():
                    n += 1
                    ctx.execute("extension", {"what": "bag", "value": [a, b, c]})
    ints = [["Equals", 1], ["LessThan", 2], ["GreaterThan", -3], ["NotEquals", 0], ["Equals", -2]]
    for oi in range(len(ints)):
        for ii in range(len(ints)):
            for fo in (False, True):
                for v in (-2, -1, 0, 1, 2, 5):
                    if ctx.mine():
                        n += 1
                        ctx.execute("extension", {"what": "negall", "outer": [ints[oi]], "inner": [ints[ii], ints[(ii + 1) % 5]],
                                                  "first_only": fo, "value": v})
    ctx.note_space("a recursive MatchesSetwise grammar over 11^3 candidate triples; a match()-overriding MatchesAll subclass "
                   "nested in MatchesAll: 5 x 5 matcher choices x first_only x 6 values", n)
    ctx.notes["random_cases"] = True
    for i in range(ctx.scale(80000, 3000000)):
        if ctx.out_of_time():
            break
        dom = rng.choice(DOMS)
        e = G.random_expr(rng, dom, rng.randint(1, 4))
        vals = G.domain_values(dom, e)
        if not vals:
            ctx.count("excluded:no-value-in-domain")
            continue
        if rng.random() < 0.15 and dom not in ("call", "warncall"):
            ctx.execute("sequence", {"expr": e, "values": [rng.choice(vals) for _ in range(rng.randint(2, 5))]})
        else:
            ctx.execute("expr", {"expr": e, "value": rng.choice(vals)})
