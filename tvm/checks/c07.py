"""C07 - mismatches are always describable; assertThat / expectThat report them faithfully."""

import ast
import itertools

from .. import matchgen as G
from .. import programs, recorders
from . import c06

PROPERTY = "C07"
LEVEL = "exploration"
RULE = (
    "cases: (a) describe = (matcher expression, value) as in C06 biased to mismatching values drawn "
    "from hostile pools (non-ASCII text, bytes >= 0x80, control characters, quotes, backslashes): "
    "str(matcher), mismatch.describe(), get_details(), str(MismatchError) for both verbosity "
    "settings, with and without an annotation message; every name in testtools.matchers.__all__ has "
    "its own evaluation counter.  (b) text_repr = every str and bytes string of length <= L (quick 3, "
    "thorough 4) over a 12-symbol hostile alphabet x multiline in {None, True, False}, random strings "
    "to length 40: ast.literal_eval(text_repr(s)) == s.  (c) assert = assertThat / assert_that / "
    "expectThat inside a real TestCase for matching and mismatching pairs, with mismatch details "
    "whose names collide with details the test already has.  Distinct = canonical JSON of the case; "
    "non-trivial = the value mismatches (a), the string needs escaping (b), a mismatch occurs (c)."
)
ALL_NAMES = ['AfterPreprocessing', 'AllMatch', 'Always', 'Annotate', 'AnyMatch', 'Contains',
             'ContainsAll', 'ContainedByDict', 'ContainsDict', 'DirContains', 'DirExists',
             'DocTestMatches', 'EndsWith', 'Equals', 'FileContains', 'FileExists', 'GreaterThan',
             'HasLength', 'HasPermissions', 'Is', 'IsDeprecated', 'IsInstance', 'KeysEqual', 'LessThan',
             'MatchesAll', 'MatchesAny', 'MatchesDict', 'MatchesException', 'MatchesListwise',
             'MatchesPredicate', 'MatchesPredicateWithParams', 'MatchesRegex', 'MatchesSetwise',
             'MatchesStructure', 'Never', 'NotEquals', 'Not', 'PathExists', 'Raises', 'raises',
             'SameMembers', 'SamePath', 'StartsWith', 'TarballContains', 'Warnings', 'WarningMessage']
REQUIRED = {
    "mon:str(matcher)-is-text": 5000,
    "mon:describe()-returns-text": 3000,
    "mon:get_details()-is-dict-of-content": 3000,
    "mon:str(MismatchError)-never-raises": 6000,
    "mon:text_repr.evaluates-back": 3000,
    "mon:assertThat.raises-iff-mismatch": 300,
    "mon:assert_that.raises-iff-mismatch": 300,
    "mon:expectThat.never-raises": 300,
    "mon:describe()-is-repeatable-and-shown": 1000,
    "mon:expectThat.test-fails-afterwards": 100,
    "mon:mismatch-details.non-clobbering": 100,
    "mon:expectThat.reports-what-assertThat-would": 50,
    "mon:describe()-shows-its-own-operands": 100,
}
REQUIRED.update({"stock-matcher:" + n: 1 for n in ALL_NAMES})
ASSUMPTIONS = list(c06.ASSUMPTIONS)
NODE_TO_NAME = {"IsNone": "Is", "MatchesStructureByEquality": "MatchesStructure",
                "MatchesStructureUpdate": "MatchesStructure", "MatchesStructureFromExample": "MatchesStructure",
                "MatchesStructureByMatcher": "MatchesStructure",
                "DirContainsM": "DirContains", "FileContainsM": "FileContains"}


def names_in(expr, out):
    if isinstance(expr, list):
        if expr and isinstance(expr[0], str) and (expr[0] in ALL_NAMES or expr[0] in NODE_TO_NAME):
            out.add(NODE_TO_NAME.get(expr[0], expr[0]))
        for x in expr:
            names_in(x, out)
    elif isinstance(expr, dict):
        for x in expr.values():
            names_in(x, out)
    return out


def is_text(x):
    return isinstance(x, str)


def x_describe(ctx, case):
    from testtools.matchers import Annotate, MismatchError
    E = c06.env()
    expr, raw = case["expr"], case["value"]
    m = G.build(expr, E)
    v = G.mkvalue(raw, E)
    for n in names_in(expr, set()):
        ctx.count("stock-matcher:" + n)
    detail = lambda: {"expr": expr, "value": raw}  # noqa: E731
    try:
        s = str(m)
        ok = is_text(s)
        err = None
    except Exception as e:  # noqa
        ok, err = False, e
    ctx.check(ok, "str(matcher)-is-text", lambda: {"error": repr(err), **detail()})
    try:
        mm = m.match(v)
    except BaseException:
        return False  # propagation cases belong to C06
    if mm is None:
        return False
    for label, matcher, mismatch in [("plain", m, mm)] + (
            [("annotated", Annotate.if_message(case["message"], m),
              Annotate.if_message(case["message"], m).match(G.mkvalue(raw, E)))]
            if case.get("message") else []):
        if mismatch is None:
            continue
        try:
            d = mismatch.describe()
            ok, err = is_text(d), None
        except Exception as e:  # noqa
            ok, err, d = False, e, None
        ctx.check(ok, "describe()-returns-text",
                  lambda: {"how": label, "error": repr(err), "returned": repr(d)[:200], **detail()})
        if ok:
            # asking again (a handler that logs the mismatch before the error is rendered, say) gives the
            # same description, and the error text carries it
            try:
                d2 = mismatch.describe()
                shown = str(MismatchError(v, matcher, mismatch, False))
            except Exception as e:  # noqa
                d2 = shown = repr(e)
            ctx.check(d2 == d and d in shown, "describe()-is-repeatable-and-shown",
                      lambda: {"how": label, "first": d[:200], "second": d2[:200], "str(MismatchError)": shown[:200],
                               **detail()})
        try:
            det = mismatch.get_details()
            ok = isinstance(det, dict) and all(hasattr(c, "iter_bytes") and hasattr(c, "content_type")
                                               for c in det.values())
            err = None
        except Exception as e:  # noqa
            ok, err = False, e
        ctx.check(ok, "get_details()-is-dict-of-content", lambda: {"how": label, "error": repr(err), **detail()})
        for verbose in (False, True):
            try:
                text = str(MismatchError(v, matcher, mismatch, verbose))
                ok, err = is_text(text), None
            except Exception as e:  # noqa
                ok, err = False, e
            ctx.check(ok, "str(MismatchError)-never-raises",
                      lambda: {"how": label, "verbose": verbose, "error": repr(err), **detail()})
    return True


def x_text_repr(ctx, case):
    from testtools.compat import text_repr
    s = bytes.fromhex(case["hex"]) if case["bytes"] else case["text"]
    ml = case["multiline"]
    try:
        r = text_repr(s, ml) if ml is not None else text_repr(s)
        back = ast.literal_eval(r)
        err = None
    except Exception as e:  # noqa
        r, back, err = None, None, e
    ctx.check(err is None and is_text(r) and back == s and type(back) is type(s),
              "text_repr.evaluates-back",
              lambda: {"input": s, "multiline": ml, "repr": r, "back": back, "error": repr(err)})
    if err is None and ml:
        ctx.check(r.lstrip("b").startswith("'''"), "text_repr.multiline-is-triple-quoted", lambda: {"repr": r})
    return any(c in "'\"\\\n\r" or ord(c) > 126 or ord(c) < 32 for c in (s.decode("latin-1") if case["bytes"] else s))


class WithDetails:
    """Stock matcher wrapped so that its mismatch carries details (names chosen by the case)."""

    def __init__(self, inner, details):
        self.inner, self.details = inner, details

    def __str__(self):
        return "WithDetails(%s)" % self.inner

    def match(self, value):
        from testtools.content import text_content
        from testtools.matchers._impl import MismatchDecorator
        mm = self.inner.match(value)
        if mm is None:
            return None
        details = {n: text_content(t) for n, t in self.details}

        class D(MismatchDecorator):
            def get_details(self):
                # a decorator that adds its entries to what the wrapped mismatch hands back
                d = self.original.get_details()
                d.update(details)
                return d
        return D(mm)


def x_assert(ctx, case):
    """assertThat / assert_that / expectThat inside a real TestCase."""
    import testtools
    from testtools.assertions import assert_that
    from testtools.matchers import MismatchError
    E = c06.env()
    expr, raw = case["expr"], case["value"]
    message, verbose = case.get("message", ""), case.get("verbose", False)
    mdetails = case.get("details", [])
    pre = case.get("pre", [])
    try:
        want = G.sem(expr, G.mkvalue(raw, E), E, raw)
    except G.Propagates:
        return False
    observed = {}

    where = case.get("where", "test")

    from .. import programs as _programs
    runner_factory = _programs.runner_factory_for(case.get("runner"))

    hooked = set()

    class T(testtools.TestCase):
        if runner_factory is not None:
            run_tests_with = runner_factory      # the same TestCase under the Deferred runners

        def addDetail(self, name, content_object):
            # (a subclass overriding the documented hook: mismatch details and the failed expectation go through it)
            hooked.add(name)
            return super().addDetail(name, content_object)

        def setUp(self):
            super().setUp()
            if where == "cleanup":
                self.addCleanup(self._body)      # the expectation / assertion is made while cleanups run
            elif where != "test":
                self._body()
                if where == "setUp-then-skip":
                    self.skipTest("skipping after the expectation")

        def test(self):
            if where == "test":
                self._body()

        def _body(self):
            for name, text in pre:
                self.addDetail(name, testtools.content.text_content(text))
            m = WithDetails(G.build(expr, E), mdetails)
            observed["m"] = m
            how = case["how"]
            try:
                if how == "assertThat":
                    self.assertThat(G.mkvalue(raw, E), m, message, verbose)
                elif how == "assert_that":
                    assert_that(G.mkvalue(raw, E), G.build(expr, E), message, verbose)
                else:
                    then = case.get("then")
                    if then == "match_before":
                        self.expectThat(1, testtools.matchers.Equals(1))
                    observed["value"] = G.mkvalue(raw, E)
                    if case.get("defaults"):
                        self.expectThat(observed["value"], m)     # message and verbose left to their defaults
                    else:
                        self.expectThat(observed["value"], m, message, verbose)
                    # further expectations that hold do not take an earlier failed one back
                    if then == "match_after":
                        self.expectThat(1, testtools.matchers.Equals(1))
                    elif then == "match_in_cleanup":
                        self.addCleanup(lambda: self.expectThat("x", testtools.matchers.Equals("x")))
                observed["raised"] = None
            except BaseException as e:  # noqa
                observed["raised"] = e
            observed["details"] = {k: b"".join(v.iter_bytes()) for k, v in self.getDetails().items()}
            observed["force"] = getattr(self, "force_failure", None)

    log = recorders.Log()
    T("test").run(recorders.ExtRecorder(log))
    outs = [n for n in log.names() if n in recorders.OUTCOMES]
    detail = lambda: {"expr": expr, "value": raw, "how": case["how"], "want match": want,  # noqa
                      "raised": repr(observed.get("raised")), "outcomes": outs,
                      "details": {k: v[:60] for k, v in observed.get("details", {}).items()}}
    how = case["how"]
    raised = observed.get("raised")
    if how in ("assertThat", "assert_that"):
        ctx.check((isinstance(raised, MismatchError)) == (not want) and (raised is None) == want,
                  how + ".raises-iff-mismatch", detail)
        if isinstance(raised, MismatchError):
            try:
                text = str(raised)
                ok = is_text(text) and (not message or message in text)
            except Exception as e:  # noqa
                ok, text = False, repr(e)
            ctx.check(ok, "assert.error-text-carries-message", lambda: {"text": text, "message": message, **detail()})
    else:
        ctx.check(raised is None, "expectThat.never-raises", detail)
        clean = "addSkip" if case.get("where") == "setUp-then-skip" else "addSuccess"
        ctx.check(outs == ([clean] if want else ["addFailure"]), "expectThat.test-fails-afterwards", detail)
    if not want:
        # what one mismatch's details were decorated with never shows up on an unrelated mismatch
        from testtools.matchers import Equals, StartsWith, MatchesAll
        stray = {}
        for other in (Equals(1).match(2), StartsWith("a").match("b"), MatchesAll(Equals(1), Equals(3)).match(2)):
            stray.update(other.get_details())
        ctx.check(not stray, "mismatch-details.non-clobbering",
                  lambda: {"details of unrelated, freshly made mismatches": sorted(stray), **detail()})
    if not want and how != "assert_that":
        have = observed["details"]
        # what counts is what travels with the outcome (the run's own traceback is attached after the body
        # and must find a free name, too)
        delivered = [e.payload.get("details") for e in log.events if e.name in recorders.OUTCOMES and e.payload]
        if delivered and delivered[0]:
            have = {k: v[1] for k, v in delivered[0].items()}
        ctx.check(set(have) <= hooked, "mismatch-details.non-clobbering",
                  lambda: {"attached without passing the subclass's addDetail": sorted(set(have) - hooked), **detail()})
        ok = all(have.get(name) == text.encode("utf8") for name, text in pre)
        for name, text in mdetails:
            hits = [k for k, v in have.items() if v == text.encode("utf8") and
                    (k == name or k.startswith(name + "-"))]
            ok = ok and len(hits) == 1
        ctx.check(ok, "mismatch-details.non-clobbering",
                  lambda: {"pre": pre, "mismatch details": mdetails, **detail()})
        if how == "expectThat":
            # the failed expectation is reported with the text assertThat would have raised for the same
            # arguments (verbose: matchee and matcher included; a message: the annotation included)
            try:
                # (the very same matcher and value objects: some texts carry an object's address)
                if case.get("defaults"):
                    assert_that(observed["value"], observed["m"])
                else:
                    assert_that(observed["value"], observed["m"], message, verbose)
                twin = None
            except MismatchError as e:
                try:
                    twin = str(e)
                except Exception as e2:  # noqa - the clause itself: str() of a MismatchError never raises
                    twin = None
                    ctx.check(False, "str(MismatchError)-never-raises", {"error": repr(e2), **detail()})
            except Exception as e:  # noqa - match() / describe() raising on an in-domain value: reported, not tripped over
                twin = None
                ctx.check(False, "assert_that.raises-iff-mismatch", {"assert_that raised": repr(e), **detail()})
            fe = b"\n".join(v for k, v in sorted(have.items()) if k.startswith("Failed expectation"))
            # (the detail is a stack trace followed by "MismatchError: " + that text - the suite pins that layout)
            ctx.check(twin is not None and ("MismatchError: " + twin).encode("utf8", "replace") in fe,
                      "expectThat.reports-what-assertThat-would",
                      lambda: {"assertThat's text": twin, "Failed expectation": fe.decode("utf8", "replace")[-400:],
                               "verbose": verbose, "message": message, **detail()})
    return not want


def x_reported_text(ctx, case):
    """What the failing assertThat reports is the mismatch as it was when the assertion failed: an
    addOnException handler that tidies up the very object the assertion looked at (after logging it, say) does
    not change the text; and a matchee handed over as a one-shot iterator is described like the same list."""
    import testtools
    E = c06.env()
    expr, raw = case["expr"], case["value"]
    try:
        want = G.sem(expr, G.mkvalue(raw, E), E, raw)
    except G.Propagates:
        return False
    if want:
        return False
    m = G.build(expr, E)       # one instance throughout: some matchers' text carries the object's address
    try:
        expected = m.match(G.mkvalue(raw, E)).describe()
    except Exception as e:  # noqa - in-domain input: that is the violation, not a harness problem
        ctx.check(False, "describe()-returns-text", {"expr": expr, "value": raw, "error": repr(e)})
        return True
    if expr[0] in ("AnyMatch", "AllMatch"):
        as_iter = m.match(iter(G.mkvalue(raw, E)))
        got = as_iter.describe() if as_iter is not None else None
        ctx.check(got == expected, "describe()-is-repeatable-and-shown",
                  lambda: {"expr": expr, "value": raw, "described for the list": expected, "for an iterator over it": got})
    if expr[0] == "AllMatch":
        # every element that does not match is reported - two equal elements failing alike are two lines, not one
        inner = G.build(expr[1], E)
        try:
            children = [mm.describe() for mm in (inner.match(x) for x in G.mkvalue(raw, E)) if mm is not None]
        except Exception:  # noqa
            children = []
        if children and all("\n" not in c for c in children):
            lines = expected.split("\n")
            short = {c: (lines.count(c), children.count(c)) for c in set(children) if lines.count(c) != children.count(c)}
            ctx.check(not short, "describe()-is-repeatable-and-shown",
                      lambda: {"expr": expr, "value": raw, "constituent mismatch: (lines shown, elements failing so)": short,
                               "described": expected})
    value = G.mkvalue(raw, E)

    class T(testtools.TestCase):
        def test(self):
            self.addOnException(lambda exc_info: value.clear())
            self.assertThat(value, m, "", case.get("verbose", False))
    log = recorders.Log()
    T("test").run(recorders.ExtRecorder(log))
    outs = [e for e in log.events if e.name in recorders.OUTCOMES]
    tb = b"".join(v[1] for k, v in ((outs[0].payload.get("details") or {}).items() if outs else []) if k.startswith("traceback"))
    ctx.check(len(outs) == 1 and outs[0].name == "addFailure" and expected.encode("utf8", "replace") in tb,
              "assert.error-text-carries-message",
              lambda: {"expr": expr, "value": raw, "described when it failed": expected,
                       "reported": tb.decode("utf8", "replace")[-300:]})
    return True


class Box:
    """Identity-hashed, with a repr that follows its (mutable) payload."""

    def __init__(self, payload):
        self.payload = payload

    def __repr__(self):
        return "Box(%r)" % (self.payload,)

    def __lt__(self, other):
        return False

    def __gt__(self, other):
        return False


def x_operand_twins(ctx, case):
    """Several comparisons in one process whose operands are equal but of different types (1 / True / 1.0,
    a tuple of ints / of floats), or one object that changed in between: each mismatch's text shows ITS
    operands (their repr or pretty-printed form), not those of an earlier comparison."""
    from pprint import pformat
    from testtools import matchers as M
    cmp = getattr(M, case["cmp"])
    big = 2 ** 200
    pool = [tuple(range(100, 135)), tuple(range(35)), tuple(float(i) for i in range(35)), big, float(big), True, 1,
            1.0, frozenset(range(40)), frozenset(float(i) for i in range(40))]
    if case.get("order") == "reversed":
        pool.reverse()
    shows = lambda d, x: pformat(x) in d or repr(x) in d  # noqa: E731
    seen = 0
    for ref in pool:
        for actual in pool:
            try:
                mm = cmp(ref).match(actual)
            except TypeError:
                continue            # unorderable pair
            if mm is None:
                continue
            d = mm.describe()
            seen += 1
            ctx.check(shows(d, actual) and shows(d, ref), "describe()-shows-its-own-operands",
                      lambda: {"matcher": "%s(%r)" % (case["cmp"], ref), "value": repr(actual), "describe()": d})
    box = Box(list(range(40)))
    ref = tuple(range(100, 135))
    for payload in (None, ["changed"] * 12, {"k": "v" * 50}):
        if payload is not None:
            box.payload = payload
        mm = cmp(ref).match(box) if case["cmp"] != "NotEquals" else cmp(box).match(box)
        if mm is not None:
            d = mm.describe()
            seen += 1
            ctx.check(shows(d, box), "describe()-shows-its-own-operands",
                      lambda: {"matcher": case["cmp"], "value now": repr(box), "describe()": d})
    return seen > 0


SUBCHECKS = {"describe": x_describe, "operand_twins": x_operand_twins, "text_repr": x_text_repr, "assert": x_assert, "reported_text": x_reported_text}

ALPHABET = ["'", '"', "\\", "\n", "\r", "a", "\xe9", "\U0001f600", "\x00", "\x7f", " ", " "]
BALPHABET = [0x27, 0x22, 0x5c, 0x0a, 0x0d, 0x61, 0xe9, 0xff, 0x00, 0x7f, 0x20, 0x80]
MESSAGES = ["", "a note", "\xe9 message with 'quotes'", "multi\nline"]


def run(ctx):
    rng = ctx.rng
    # ---- (a) describe: every leaf x every value, then random trees -----------------------------
    n = 0
    for dom in c06.DOMS:
        for leaf in G.leaves(dom) + [t() for t in G.combos(dom, lambda d: G.leaves(d)[3 % len(G.leaves(d))],
                                                           ctx.sub_rng("c07", dom), 1)]:
            vals = G.domain_values(dom, leaf)
            for raw in vals:
                if ctx.mine():
                    n += 1
                    ctx.execute("describe", {"expr": leaf, "value": raw, "message": MESSAGES[n % 4]},
                                sample=(n % 499 == 0))
    ctx.note_space("every leaf matcher and one instance of every combinator per domain x every pool "
                   "value", n)
    ctx.notes["random_cases"] = True
    for i in range(ctx.scale(40000, 1500000)):
        if ctx.out_of_time():
            break
        dom = rng.choice(c06.DOMS)
        e = G.random_expr(rng, dom, rng.randint(1, 3))
        vals = G.domain_values(dom, e)
        if not vals:
            continue
        ctx.execute("describe", {"expr": e, "value": rng.choice(vals), "message": rng.choice(MESSAGES)})
    # ---- (b) text_repr ---------------------------------------------------------------------------
    maxlen = 3 if ctx.quick else 4
    n = 0
    for L in range(0, maxlen + 1):
        for idx in itertools.product(range(len(ALPHABET)), repeat=L):
            for ml in (None, True, False):
                if ctx.mine():
                    n += 1
                    ctx.execute("text_repr", {"bytes": False, "text": "".join(ALPHABET[i] for i in idx),
                                              "multiline": ml}, sample=(n % 2003 == 0))
                if ctx.mine():
                    n += 1
                    ctx.execute("text_repr", {"bytes": True, "hex": bytes(BALPHABET[i] for i in idx).hex(),
                                              "multiline": ml}, sample=False)
    ctx.note_space("text_repr: all str and bytes strings of length <= %d over 12-symbol hostile "
                   "alphabets x multiline None/True/False" % maxlen, n)
    for i in range(ctx.scale(20000, 800000)):
        if ctx.out_of_time():
            break
        L = rng.randint(0, 40)
        if rng.random() < 0.5:
            s = "".join(rng.choice(ALPHABET) if rng.random() < 0.6 else chr(rng.choice(
                [rng.randrange(32, 127), rng.randrange(0x80, 0x300), rng.randrange(0x2000, 0x2100),
                 rng.randrange(0x10000, 0x10100)])) for _ in range(L))
            ctx.execute("text_repr", {"bytes": False, "text": s, "multiline": rng.choice([None, True, False])})
        else:
            b = bytes(rng.choice(BALPHABET) if rng.random() < 0.6 else rng.randrange(256) for _ in range(L))
            ctx.execute("text_repr", {"bytes": True, "hex": b.hex(), "multiline": rng.choice([None, True, False])})
    for i in range(ctx.scale(1500, 60000)):
        if ctx.out_of_time():
            break
        dom = rng.choice(["list", "lstr", "dict"])
        e = G.random_expr(rng, dom, rng.randint(0, 2))
        if rng.random() < 0.3 and dom != "dict":
            e = [rng.choice(["AnyMatch", "AllMatch"]), G.random_expr(rng, "int" if dom == "list" else "str", 1)]
        vals = [v for v in G.domain_values(dom, e) if len(v) == 2]      # plain lists / dicts
        if vals:
            ctx.execute("reported_text", {"expr": e, "value": rng.choice(vals), "verbose": rng.random() < 0.5})
    for cmp in ("Equals", "NotEquals", "LessThan", "GreaterThan"):
        for order in ("given", "reversed"):
            if ctx.mine():
                ctx.execute("operand_twins", {"cmp": cmp, "order": order})
    # ---- (c) assertThat / assert_that / expectThat -------------------------------------------------
    names = ["foo", "foo-1", "log", "log-1", "traceback", "Failed expectation"]
    for i in range(ctx.scale(8000, 400000)):
        if ctx.out_of_time():
            break
        dom = rng.choice(["int", "str", "bytes", "list", "dict", "obj", "exc", "lstr", "path"])
        e = G.random_expr(rng, dom, rng.randint(0, 2))
        vals = G.domain_values(dom, e)
        if not vals:
            continue
        pre = [[nm, "PRE-%s" % nm] for nm in rng.sample(names, rng.randint(0, 4))]
        md = [[nm, "MM-%s" % nm] for nm in rng.sample(names, rng.randint(0, 3))]
        how = rng.choice(["assertThat", "assert_that", "expectThat"])
        ctx.execute("assert", {"expr": e, "value": rng.choice(vals), "how": how,
                               "where": rng.choice(["test", "test", "setUp", "setUp-then-skip", "cleanup"])
                               if how == "expectThat" else "test",
                               "message": rng.choice(MESSAGES), "verbose": rng.random() < 0.5,
                               "then": rng.choice([None, None, "match_after", "match_in_cleanup", "match_before"]),
                               "runner": rng.choice([None, None, None, "sync", "async"]),
                               "defaults": how == "expectThat" and rng.random() < 0.25,
                               "pre": pre, "details": md})
