"""C08 - result adapters deliver each call once, at the richest protocol the target has."""

import itertools

from .. import histories as H
from .. import recorders

PROPERTY = "C08"
LEVEL = "exploration"
RULE = (
    "a case is (adapter stack, well-formed TestResult history).  Stacks: depth 1..3 over "
    "ExtendedToOriginalDecorator, MultiTestResult (1..3 children), TestResultDecorator, Tagger and "
    "TestByTestResult ending in 2.6-style / 2.7-style / extended / Twisted-style / testtools.TestResult "
    "recorders, respecting protocol compatibility.  Histories: startTestRun, tags, time (clock may "
    "run backwards), progress, 0..5 tests (TestCase / PlaceHolder / ErrorHolder objects) each with "
    "one of six outcomes given as exc_info, details, reason or bare, stop, done, stopTestRun.  The "
    "oracle composes per-adapter transfer functions and the documented degradation table and "
    "compares with every leaf's log; TestByTestResult callbacks are counted after every step.  All "
    "depth-1/2 stacks x all single-test histories are enumerated; random beyond.  Distinct = "
    "canonical JSON of (stack, history); non-trivial = at least one adapter and one test."
)
REQUIRED = {
    "mon:leaf.call-sequence==model": 3000,
    "mon:leaf.outcome-degrades-as-documented": 3000,
    "mon:leaf.payload-carries-the-information": 3000,
    "mon:e2o.failing-never-becomes-passing": 1000,
    "mon:tbt.exactly-one-callback-at-stopTest": 300,
    "mon:tbt.callback-fields": 300,
    "mon:caller.details-not-mutated": 500,
}
ASSUMPTIONS = [
    "TestResultDecorator / Tagger are only placed over something speaking the extended protocol",
    "progress / done / stop are only issued when the outermost object implements them",
    "ThreadsafeForwardingResult re-orders calls by design and is covered by C12/C17, not here",
]

STATUS_WORD = {"addSuccess": "success", "addFailure": "failure", "addError": "error",
               "addSkip": "skip", "addExpectedFailure": "xfail", "addUnexpectedSuccess": "success"}


def direct_events(history):
    ev = []
    for op in history:
        if op[0] == "test":
            spec = op[1]
            if spec.get("t0") is not None:
                ev.append(("time", spec["t0"]))
            ev.append(("startTest", spec["id"]))
            for new, gone in spec.get("tags_in", []):
                ev.append(("tags", frozenset(new), frozenset(gone)))
            if spec.get("t1") is not None:
                ev.append(("time", spec["t1"]))
            ev.append(("outcome", spec))
            ev.append(("stopTest", spec["id"]))
        elif op[0] == "tags":
            ev.append(("tags", frozenset(op[1]), frozenset(op[2])))
        else:
            ev.append(tuple(op))
    return ev


def through(path, events):
    for step in path:
        if step[0] == "Tagger":
            out = []
            for e in events:
                out.append(e)
                if e[0] == "startTest":
                    out.append(("tags", frozenset(step[1]), frozenset(step[2])))
            events = out
    return events


def degrade(flavour, name):
    if flavour == "py26":
        return {"addSkip": "addSuccess", "addExpectedFailure": "addSuccess",
                "addUnexpectedSuccess": "addFailure"}.get(name, name)
    return name


# The statement is about startTest / outcome / stopTest; run brackets are compared where the leaf
# has them.  stop / done / progress are forwarded only by adapters that implement them
# (TestResultDecorator has no done(), MultiTestResult no progress()) and are not compared.
KEEP = {
    "py26": {"startTest", "stopTest", "outcome"},
    "py27": {"startTest", "stopTest", "outcome", "startTestRun", "stopTestRun"},
    "twisted": {"startTest", "stopTest", "outcome"},
    "ext": {"startTest", "stopTest", "outcome", "startTestRun", "stopTestRun", "tags", "time"},
    "real": {"startTest", "stopTest", "outcome", "startTestRun", "stopTestRun"},
}


def text_tokens(spec):
    return [t for n, t, c in spec.get("details", []) if c in ("text", "text-split", "shared")] + [
        t.swapcase() for n, t, c in spec.get("details", []) if c == "override"] + [
        H.lines_text(t) for n, t, c in spec.get("details", []) if c == "text-lines"]


def check_payload(ctx, flavour, spec, ev, detail):
    name, form = spec["outcome"], spec["form"]
    p = ev.payload or {}
    ok = True
    why = ""
    rich = flavour in ("ext", "real")
    if rich:
        if form == "details":
            want = {n: H.detail_bytes(t, c) for n, t, c in spec["details"]}
            got = {n: v[1] for n, v in (p.get("details") or {}).items()}
            ok, why = got == want, "details differ"
        elif form == "exc":
            ok, why = p.get("err") == ("ValueError", spec["token"]), "exc_info differs"
        elif form == "reason":
            ok, why = p.get("reason") == spec["reason"], "reason differs"
        else:
            ok, why = not p.get("details") and p.get("err") is None, "unexpected payload"
    else:
        target = ev.name
        if target in ("addError", "addFailure", "addExpectedFailure"):
            err = p.get("err")
            if name == "addUnexpectedSuccess":
                ok, why = (err is not None and err[0] == ("Strict" if spec.get("kind") == "strictfail" else "AssertionError"),
                           "uxsuccess not degraded to the test's failure exception")
            elif form == "exc":
                ok, why = err == ("ValueError", spec["token"]), "exc_info differs"
            else:
                ok = err is not None and err[0] == "_StringException" and all(
                    t in err[1] for t in text_tokens(spec))
                why = "synthetic exception does not contain every text detail"
        elif target == "addSkip":
            reason = p.get("reason")
            if form == "reason":
                ok, why = reason == spec["reason"], "reason differs"
            else:
                rs = [t for n, t, c in spec["details"] if n == "reason"]
                if rs:
                    ok, why = reason == rs[0], "reason detail not used as the reason"
                else:
                    ok = isinstance(reason, str) and all(t in reason for t in text_tokens(spec))
                    why = "synthetic reason does not contain every text detail"
    if ok and p.get("todo") is not None:
        ok, why = False, "something was handed over as Twisted's `todo` argument"
    ctx.check(ok, "leaf.payload-carries-the-information",
              lambda: {"flavour": flavour, "spec": spec, "delivered": ev.name, "payload": p, "why": why,
                       **detail()})


def x_case(ctx, case):
    stack, history = case["stack"], case["history"]
    top, built = H.build_stack(stack)
    detail = lambda: {"stack": stack, "history": history}  # noqa: E731
    tbt_counts = []

    def on_step(what, spec):
        if what in ("before-outcome", "after-outcome", "after-stopTest"):
            tbt_counts.append((what, spec["id"], [len(calls) for _, calls in built.tbt]))

    handed_snap = []
    try:
        handed = H.drive(top, history, on_step)
        err = None
    except Exception as e:  # noqa
        import traceback
        handed, err = [], traceback.format_exc(limit=8)
    ctx.check(err is None, "adapter.well-formed-history-accepted", lambda: {"error": err, **detail()})
    if err is not None:
        return True
    for spec, d in handed:
        # (a "shared" detail is one lazy object whose source moves on with every test: not comparable afterwards)
        shared = {n for n, t, c in spec["details"] if c == "shared"}
        want = {n: H.detail_bytes(t, c) for n, t, c in spec["details"] if n not in shared}
        got = {n: b"".join(c.iter_bytes()) for n, c in d.items() if n not in shared}
        ctx.check(got == want, "caller.details-not-mutated",
                  lambda: {"spec": spec, "after": sorted(got), "before": sorted(want), **detail()})
    events = direct_events(history)
    for path, flavour, log, obj in built.leaves:
        evs = through(path, events)
        want_names = []
        specs = []
        for e in evs:
            if e[0] not in KEEP[flavour]:
                continue
            if e[0] == "outcome":
                want_names.append(degrade(flavour, e[1]["outcome"]))
                specs.append(e[1])
            else:
                want_names.append(e[0])
        got = [e for e in log.events if e.name in KEEP[flavour] or e.name in recorders.OUTCOMES]
        got_names = [e.name for e in got]
        ctx.check(got_names == want_names, "leaf.call-sequence==model",
                  lambda: {"leaf": flavour, "path": path, "got": got_names, "want": want_names, **detail()})
        outs = [e for e in got if e.name in recorders.OUTCOMES]
        if len(outs) == len(specs):
            for ev, spec in zip(outs, specs):
                ctx.check(ev.name == degrade(flavour, spec["outcome"]) and ev.test == spec["id"],
                          "leaf.outcome-degrades-as-documented",
                          lambda: {"leaf": flavour, "got": ev.name, "spec": spec, **detail()})
                if spec["outcome"] in ("addError", "addFailure", "addUnexpectedSuccess"):
                    ctx.check(ev.name in ("addError", "addFailure", "addUnexpectedSuccess"),
                              "e2o.failing-never-becomes-passing",
                              lambda: {"leaf": flavour, "got": ev.name, "spec": spec, **detail()})
                check_payload(ctx, flavour, spec, ev, detail)
        if flavour == "ext":
            # tags / time / progress payloads
            want_aux = [e for e in evs if e[0] in ("tags", "time")]
            got_aux = []
            for e in log.events:
                if e.name == "tags":
                    got_aux.append(("tags", e.payload["new"], e.payload["gone"]))
                elif e.name == "time":
                    got_aux.append(("time", H.TIMES.index(e.payload["time"])))
            ctx.check(got_aux == want_aux, "leaf.tags-and-time-forwarded",
                      lambda: {"got": got_aux, "want": want_aux, **detail()})
            # progress(offset, whence): every adapter on the way here that has it forwards it as given (a
            # MultiTestResult has no progress() - such stacks never get the call, see H.supports)
            want_p = [(op[1], op[2]) for op in history if op[0] == "progress"]
            got_p = [(e.payload["offset"], e.payload["whence"]) for e in log.events if e.name == "progress"]
            if (want_p or got_p) and not any(step[0] in ("Multi", "TBT") for step in path):
                ctx.check(got_p == want_p, "leaf.tags-and-time-forwarded",
                          lambda: {"progress calls received": got_p, "issued": want_p, **detail()})
    # ---- TestByTestResult -----------------------------------------------------------------------
    for k, (path, calls) in enumerate(built.tbt):
        evs = through(path, events)
        tests = [e[1] for e in evs if e[0] == "outcome"]
        ok = len(calls) == len(tests)
        seq_ok = True
        prev = 0
        for what, tid, counts in tbt_counts:
            c = counts[k]
            if what == "after-stopTest":
                seq_ok = seq_ok and c == prev + 1
                prev = c
            else:
                seq_ok = seq_ok and c == prev
        ctx.check(ok and seq_ok, "tbt.exactly-one-callback-at-stopTest",
                  lambda: {"calls": len(calls), "tests": len(tests), "counts": tbt_counts, **detail()})
        if not ok:
            continue
        # model of time / tags at start and stop
        now = None
        run_tags, cur = set(), None
        i = 0
        start_time = None
        for e in evs:
            if e[0] == "startTestRun":
                now, run_tags, cur = None, set(), None
            elif e[0] == "time":
                now = H.TIMES[e[1]]
            elif e[0] == "tags":
                tgt = cur if cur is not None else run_tags
                tgt |= e[1]
                tgt -= e[2]
            elif e[0] == "startTest":
                cur = set(run_tags)
                start_time = now
            elif e[0] == "stopTest":
                call, spec = calls[i], tests[i]
                i += 1
                want_details = None
                if spec["form"] == "details":
                    want_details = {n: H.detail_bytes(t, c) for n, t, c in spec["details"]}
                elif spec["form"] == "reason":
                    want_details = {"reason": spec["reason"].encode("utf8")}
                got_details = None if call["details"] is None else {n: v[1] for n, v in call["details"].items()}
                # with no time() supplied in this run the callback carries the real clock, never a
                # value supplied in an earlier run (all supplied values lie in 2023)
                ok = (call["test"] == spec["id"] and call["status"] == STATUS_WORD[spec["outcome"]]
                      and call["tags"] == (cur if cur is not None else run_tags)
                      and (call["start_time"] == start_time if start_time is not None
                           else call["start_time"] is not None and call["start_time"] not in H.TIMES)
                      and (call["stop_time"] == now if now is not None
                           else call["stop_time"] is not None and call["stop_time"] not in H.TIMES))
                if spec["form"] == "exc":
                    ok = (ok and got_details is not None and spec["token"].encode() in got_details.get("traceback", b"")
                          and H.LATER_FRAME not in got_details.get("traceback", b""))    # (the triple handed in, nothing later)
                elif spec["form"] in ("details", "reason"):
                    ok = ok and got_details == want_details
                else:
                    ok = ok and not got_details     # reported without details: none of another test's
                ctx.check(ok, "tbt.callback-fields",
                          lambda: {"call": {k2: v for k2, v in call.items() if k2 != "_seq"}, "spec": spec,
                                   "want tags": cur, "want start": start_time, "want stop": now, **detail()})
                cur = None
    return stack[0] != "leaf" and any(op[0] == "test" for op in history)


def x_holder(ctx, case):
    """PlaceHolder / ErrorHolder objects - what testtools itself runs through the adapters for broken runners,
    failed imports and replayed stream tests - report their error's traceback under 'traceback' ("any existing
    key will be overridden") next to the details they were given, whatever the stack degrades them to."""
    import testtools
    from testtools.content import text_content
    top, built = H.build_stack(case["stack"])
    exc_info = H.make_exc_info("<<HX>>")
    details = {}
    if case["stale_traceback"]:
        details["traceback"] = text_content("STALE-traceback-of-an-earlier-attempt")
    if case["extra"]:
        details["log"] = text_content("<<HL>>")
    if case.get("tagged"):
        # built from a working set the caller goes on using (replaying a log): the holder reports the tags it was GIVEN
        working = {"ht"}
        holder = testtools.PlaceHolder("holder.id", details=details or None, outcome="addError", error=exc_info, tags=working)
        working.clear()
        working.add("callers-next-tag")
    else:
        holder = testtools.ErrorHolder("holder.id", error=exc_info, details=details or None)
    top.startTestRun()
    holder.run(top)
    top.stopTestRun()
    detail = lambda: {"case": case}  # noqa: E731
    seen = 0
    for path, flavour, log, obj in built.leaves:
        outs = [e for e in log.events if e.name in recorders.OUTCOMES]
        ok = len(outs) == 1 and outs[0].name == "addError"
        text = b""
        if ok:
            p = outs[0].payload or {}
            if flavour in ("ext", "real"):
                got = {n: v[1] for n, v in (p.get("details") or {}).items()}
                text = got.get("traceback", b"")
                ok = (b"<<HX>>" in text and b"STALE" not in b"".join(got.values())
                      and (not case["extra"] or got.get("log") == b"<<HL>>"))
                if case.get("tagged"):
                    tg = p.get("tags") or ()
                    ctx.check("ht" in tg and "callers-next-tag" not in tg, "leaf.tags-and-time-forwarded",
                              lambda: {"flavour": flavour, "the holder was built with": ["ht"], "observed with its outcome": sorted(tg), **detail()})
            else:
                err = p.get("err")
                text = (err[1] if err else "").encode("utf8", "replace")
                ok = b"<<HX>>" in text and b"STALE" not in text and (not case["extra"] or b"<<HL>>" in text)
        seen += 1
        ctx.check(ok, "leaf.payload-carries-the-information",
                  lambda: {"flavour": flavour, "delivered": [e.name for e in outs], "text": text[-300:], **detail()})
    for path, calls in built.tbt:
        ok = len(calls) == 1 and calls[0]["status"] == "error"
        if ok:
            got = {n: v[1] for n, v in (calls[0]["details"] or {}).items()}
            ok = (b"<<HX>>" in got.get("traceback", b"") and b"STALE" not in b"".join(got.values())
                  and (not case["extra"] or got.get("log") == b"<<HL>>"))
        if ok and case.get("tagged"):
            tg = calls[0].get("tags") or ()
            ok = "ht" in tg and "callers-next-tag" not in tg
        seen += 1
        ctx.check(ok, "tbt.callback-fields", lambda: {"holder": True, "calls": [
            {k2: v for k2, v in c.items() if k2 != "_seq"} for c in calls], **detail()})
    return seen > 0


def x_tbt_flags(ctx, case):
    """TestByTestResult is a testtools result like the others: next to the callback it answers wasSuccessful() and,
    with failfast, shouldStop - an unexpected success counts as a problem here as everywhere ("a failing outcome never
    becomes a passing one"), and a 2.6-style result behind the adapter is told of a failure, by object and by holder."""
    import unittest
    import testtools
    calls = []
    tbt = testtools.TestByTestResult(lambda **kw: calls.append(kw["status"]))
    tbt.failfast = case["failfast"]
    tbt.startTestRun()
    bad_seen = False
    for k, outcome in enumerate(case["outcomes"]):
        t = testtools.PlaceHolder("t%d" % k)
        tbt.startTest(t)
        if outcome in ("addSuccess", "addUnexpectedSuccess"):
            getattr(tbt, outcome)(t)
        elif outcome == "addSkip":
            tbt.addSkip(t, "why")
        else:
            getattr(tbt, outcome)(t, H.make_exc_info("x"))
        tbt.stopTest(t)
        bad_seen = bad_seen or outcome in ("addError", "addFailure", "addUnexpectedSuccess")
        ctx.check(tbt.wasSuccessful() == (not bad_seen) and (not case["failfast"] or bool(tbt.shouldStop) == bad_seen),
                  "e2o.failing-never-becomes-passing",
                  lambda: {"TestByTestResult after": case["outcomes"][:k + 1], "wasSuccessful": tbt.wasSuccessful(),
                           "shouldStop": tbt.shouldStop, "failfast": case["failfast"], "callbacks": calls})
    # the stock holders reported into a plain unittest.TestResult (which reads test.failureException to trim tracebacks)
    plain = unittest.TestResult()
    holder = testtools.ErrorHolder("holder.id", error=H.make_exc_info("<<HX>>"))
    try:
        holder.run(plain)
        raised = None
    except Exception as e:  # noqa
        raised = e
    ctx.check(raised is None and len(plain.errors) == 1 and "<<HX>>" in plain.errors[0][1] and plain.testsRun == 1,
              "leaf.payload-carries-the-information",
              lambda: {"an ErrorHolder run into unittest.TestResult": [e[1][-200:] for e in plain.errors], "raised": repr(raised)})
    return True


def x_tbt_reentrant(ctx, case):
    """A TestByTestResult whose on_test callback reacts to a failed test by running a retry of it into the SAME
    result at once (a retry driver): the retry is a test of its own - its callback carries its own tags (the
    run-level ones), not the local tags of the test that was just stopped."""
    import testtools
    calls = []

    def on_test(test, status, start_time, stop_time, tags, details):
        calls.append((test.id(), status, frozenset(tags)))
        if status in case["retry_on"] and not test.id().endswith("-retry"):
            testtools.PlaceHolder(test.id() + "-retry").run(tbt)
    tbt = testtools.TestByTestResult(on_test)
    tbt.startTestRun()
    tbt.tags(set(case["run_tags"]), set())
    want = []
    for i, (outcome, local) in enumerate(case["tests"]):
        t = testtools.PlaceHolder("t%d" % i)
        tbt.startTest(t)
        tbt.tags(set(local), set())
        if outcome == "addSuccess":
            tbt.addSuccess(t)
        else:
            getattr(tbt, outcome)(t, H.make_exc_info("x"))
        tbt.stopTest(t)
        status = {"addSuccess": "success", "addFailure": "failure", "addError": "error"}[outcome]
        want.append(("t%d" % i, status, frozenset(case["run_tags"]) | frozenset(local)))
        if status in case["retry_on"]:
            want.append(("t%d-retry" % i, "success", frozenset(case["run_tags"])))
    tbt.stopTestRun()
    ctx.check(sorted(map(repr, calls)) == sorted(map(repr, want)), "tbt.callback-fields",
              lambda: {"calls": calls, "want": want, "case": case})
    return True


def x_tbt_nostart(ctx, case):
    """The startTest-less addSkip + stopTest pair (what unittest in Python 3.12.1 emits for a skipped stdlib test)
    arriving at a TestByTestResult after an ordinary test: the callback carries THAT test's times - its start is
    unknown (None) - not the previous test's start."""
    import datetime
    import testtools
    UTC = datetime.timezone.utc
    T = [datetime.datetime(2023, 5, 5, 12, 0, k, tzinfo=UTC) for k in range(6)]
    calls = []
    tbt = testtools.TestByTestResult(lambda **kw: calls.append((kw["test"].id(), kw["status"], kw["start_time"], kw["stop_time"])))
    top = {"tbt": lambda: tbt, "e2o": lambda: testtools.ExtendedToOriginalDecorator(tbt),
           "multi": lambda: testtools.MultiTestResult(tbt), "tagger": lambda: testtools.Tagger(tbt, {"t"}, set())}[case["stack"]]()
    top.startTestRun()
    a, b, c = (testtools.PlaceHolder(n) for n in ("a", "b", "c"))
    want = []
    for k in range(case["before"]):
        top.time(T[0])
        top.startTest(a)
        top.time(T[1])
        top.addSuccess(a)
        top.stopTest(a)
        want.append(("a", "success", T[0], T[1]))
    top.time(T[3])
    top.addSkip(b, "not on this platform")
    top.stopTest(b)
    want.append(("b", "skip", None, T[3]))        # no start was reported: unknown - never an earlier test's
    if case["after"]:
        top.time(T[4])
        top.startTest(c)
        top.time(T[5])
        top.addSuccess(c)
        top.stopTest(c)
        want.append(("c", "success", T[4], T[5]))
    top.stopTestRun()
    ctx.check(calls == want, "tbt.callback-fields", lambda: {"calls": [tuple(map(str, x)) for x in calls],
                                                             "want": [tuple(map(str, x)) for x in want], "case": case})
    return True


SUBCHECKS = {"case": x_case, "holder": x_holder, "tbt_reentrant": x_tbt_reentrant, "tbt_flags": x_tbt_flags, "tbt_nostart": x_tbt_nostart}


def single_test_histories():
    out = []
    n = 0
    for outcome in H.OUTCOMES:
        forms = {"addSuccess": ["none", "details"], "addSkip": ["reason", "details"],
                 "addUnexpectedSuccess": ["none", "details"]}.get(outcome, ["exc", "details"])
        for form in forms:
            for kind in ("placeholder", "testcase"):
                variants = [[]]
                if form == "details":
                    variants = [[], [["foo", "<<D1>>", "text"]],
                                [["foo", "<<D1>>", "text"], ["bin", "<<D2>>", "bin"], ["traceback", "<<D3>>", "text"]]]
                    if outcome == "addSkip":
                        variants.append([["reason", "<<R1>>", "text"], ["foo", "<<D1>>", "text"]])
                for det in variants:
                    n += 1
                    spec = {"id": "t%d" % n, "outcome": outcome, "form": form, "kind": kind, "t0": 3, "t1": 1,
                            "tags_in": [[["a"], []]]}
                    if form == "details":
                        spec["details"] = det
                    elif form == "exc":
                        spec["token"] = "<<X1>>"
                    elif form == "reason":
                        spec["reason"] = "<<R1>>"
                    out.append([["startTestRun"], ["tags", ["b"], []], ["test", spec], ["stopTestRun"]])
    return out


def small_stacks():
    leaves = [["leaf", f] for f in H.LEAVES]
    d1 = [["leaf", "ext"], ["leaf", "real"], ["TBT"]]
    d2 = [["E2O", l] for l in leaves] + [["E2O", ["TBT"]]] + [["Multi", [l]] for l in leaves] + [
        ["Multi", [["leaf", "py27"], ["leaf", "real"]]], ["Multi", [["leaf", "py26"], ["TBT"]]],
        ["Multi", [["leaf", "twisted"], ["leaf", "ext"], ["TBT"]]],
        ["Decorator", ["leaf", "ext"]], ["Decorator", ["leaf", "real"]],
        ["Tagger", ["x"], ["b"], ["leaf", "ext"]], ["Tagger", ["x"], [], ["leaf", "real"]],
        ["Tagger", ["x"], ["b"], ["leaf", "ext"], "iter"], ["Tagger", ["x", "y"], ["b"], ["leaf", "ext"], "mutated"],
        ["Tagger", ["x"], ["b"], ["Multi", [["TBT"]]], "iter"], ["Tagger", ["x"], ["b"], ["Multi", [["TBT"]]], "mutated"]]
    d3 = []
    for s in d2:
        if s[0] in ("E2O", "Multi"):
            d3.append(["Decorator", s])
            d3.append(["Tagger", ["x"], ["b"], s])
            d3.append(["Multi", [s, ["leaf", "ext"]]])
        d3.append(["E2O", s])
    return d1 + d2, d3


def run(ctx):
    rng = ctx.rng
    hists = single_test_histories()
    upto2, depth3 = small_stacks()
    n = 0
    for s in upto2 + (depth3 if not ctx.quick else depth3[::3]):
        for h in hists:
            if ctx.mine():
                n += 1
                ctx.execute("case", {"stack": s, "history": h}, sample=(n % 499 == 0))
    ctx.note_space("%d stacks of depth <= 2 (+ depth-3 wrappers) x %d single-test histories (6 outcomes x "
                   "forms x test kinds x detail sets)" % (len(upto2), len(hists)), n)
    n = 0
    for s in upto2:
        for stale in (False, True):
            for extra in (False, True):
                if ctx.mine():
                    n += 1
                    ctx.execute("holder", {"stack": s, "stale_traceback": stale, "extra": extra})
                    ctx.execute("holder", {"stack": s, "stale_traceback": stale, "extra": extra, "tagged": True})
    ctx.note_space("%d stacks of depth <= 2 x an ErrorHolder with / without a stale 'traceback' detail and another "
                   "detail" % len(upto2), n)
    for stack in ("tbt", "e2o", "multi", "tagger"):
        for before in (0, 1, 2):
            for after in (False, True):
                if ctx.mine():
                    ctx.execute("tbt_nostart", {"stack": stack, "before": before, "after": after})
    for run_tags in ([], ["r"]):
        for retry_on in (["failure"], ["failure", "error"], []):
            for tests in ([["addFailure", ["l1"]], ["addSuccess", []]], [["addSuccess", ["a"]], ["addError", ["b", "c"]]],
                          [["addFailure", []], ["addFailure", ["z"]]]):
                if ctx.mine():
                    ctx.execute("tbt_reentrant", {"run_tags": run_tags, "retry_on": retry_on, "tests": tests})
    for failfast in (False, True):
        for outs in (["addSuccess", "addUnexpectedSuccess", "addSuccess"], ["addSkip", "addExpectedFailure", "addSuccess"],
                     ["addUnexpectedSuccess"], ["addSuccess", "addFailure"], ["addExpectedFailure", "addError", "addSkip"]):
            if ctx.mine():
                ctx.execute("tbt_flags", {"failfast": failfast, "outcomes": outs})
    # one lazy Content object (a log buffer) attached to every one of 2-3 tests, its source moving on in between
    n = 0
    OUTS = ["addFailure", "addError", "addSkip", "addExpectedFailure", "addSuccess", "addUnexpectedSuccess"]
    for s in upto2:
        for o1 in OUTS:
            for o2 in OUTS[:4]:
                if not ctx.mine():
                    continue
                n += 1
                tests = []
                for k, o in enumerate((o1, o2, o1)):
                    det = [["log", "<<L%d>>" % k, "shared"]] + ([["traceback", "<<T%d>>" % k, "text"]] if k == 1 else [])
                    tests.append(["test", {"id": "t%d" % k, "outcome": o, "form": "details", "kind": "placeholder",
                                           "details": det}])
                ctx.execute("case", {"stack": s, "history": [["startTestRun"]] + tests + [["stopTestRun"]]},
                            sample=(n % 97 == 0))
    ctx.note_space("%d stacks of depth <= 2 x 6 x 4 outcome pairs: three tests carrying the same lazy Content object "
                   "whose source changes between them" % len(upto2), n)
    ctx.notes["random_cases"] = True
    for i in range(ctx.scale(20000, 800000)):
        if ctx.out_of_time():
            break
        stack = H.random_stack(rng, rng.randint(1, 3))
        history = H.random_history(rng, stack, runs=rng.choice([1, 1, 2]))
        if rng.random() < 0.25:
            for op in history:
                if op[0] == "test" and op[1].get("form") == "details":
                    for item in op[1]["details"]:
                        if item[2] == "text" and item[0] in ("log", "foo"):
                            item[2] = "shared"
                            break           # one per test: the shared object has one source
        ctx.execute("case", {"stack": stack, "history": history})
