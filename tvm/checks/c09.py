"""C09 - TestResult -> StreamResult -> TestResult conversion preserves every test."""

import itertools

from .. import histories as H
from .. import recorders

PROPERTY = "C09"
LEVEL = "exploration"
RULE = (
    "a case is a well-formed TestResult history (0..6 tests, each outcome kind, given as exc_info, "
    "details, reason or bare; 0..4 details of 0..5 chunks incl. empty chunks and all-empty details; "
    "binary and text content types with parameters; non-ASCII ids, names and reasons; tags inside and "
    "outside tests; explicit time() values or none) fed into ExtendedToStreamDecorator(CopyStreamResult("
    "[stream recorder, StreamToExtendedDecorator(extended recorder)])).  Monitors: a per-test automaton "
    "over the stream log (inprogress, file events in chunk order with eof exactly on each detail's last "
    "chunk, exactly one final status after the files) and a field-by-field comparison at the far end.  "
    "Exhaustive over outcome x form x {0,1,2 details} x chunkings of <= 3 chunks; random beyond.  "
    "Distinct = canonical JSON of the history; non-trivial = at least one test."
)
REQUIRED = {
    "mon:stream.inprogress-at-startTest": 1000,
    "mon:stream.files-in-chunk-order-eof-on-last": 1000,
    "mon:stream.one-final-status-after-files": 1000,
    "mon:far.one-bracket-per-test-same-id": 1000,
    "mon:far.outcome-mapped": 1000,
    "mon:far.tags-at-outcome": 1000,
    "mon:far.details-identical": 500,
    "mon:far.times-as-supplied": 300,
    "mon:stream.events-not-changed-after-delivery": 1000,
    "mon:far.skip-reason": 100,
}
ASSUMPTIONS = [
    "text/* details that declare a charset carry bytes valid in it (the decorator renders text details "
    "itself); arbitrary bytes only under non-text or charset-less types",
    "details whose bytes are all empty are exempt at the far end, as the property states",
    "content type parameters come from the quote-free domain of C16",
]

STATUS = {"addSuccess": "success", "addFailure": "fail", "addError": "fail", "addSkip": "skip",
          "addExpectedFailure": "xfail", "addUnexpectedSuccess": "uxsuccess"}
FAR = {"addSuccess": "addSuccess", "addFailure": "addFailure", "addError": "addFailure",
       "addSkip": "addSkip", "addExpectedFailure": "addExpectedFailure",
       "addUnexpectedSuccess": "addUnexpectedSuccess"}
FINALS = set(STATUS.values())


def details_fn(items):
    from testtools.content import Content
    from testtools.content_type import ContentType
    d = {}
    for it in items:
        chunks = [bytes.fromhex(h) for h in it["chunks"]]
        if len(it["name"]) % 2:
            ct = ContentType(it["type"][0], it["type"][1], dict(it["type"][2]))
        else:
            # the public `parameters` completed after construction (a charset that becomes known later): the same type
            ct = ContentType(it["type"][0], it["type"][1])
            ct.parameters.update(it["type"][2])
        d[it["name"]] = Content(ct, lambda c=chunks: list(c))
    return d


def x_hist(ctx, case):
    import testtools
    from testtools.content_type import ContentType
    history = case["history"]
    slog, flog = recorders.Log(), recorders.Log()
    sink = recorders.StreamRecorder(slog, "s")
    far = recorders.ExtRecorder(flog)
    e2s_class = testtools.ExtendedToStreamDecorator
    if case.get("e2s_subclass"):
        # a subclass overriding status() - the one method every event is documented to go through - here to stamp a
        # route code on whatever the decorator emits (the inprogress event of startTest included)
        class Stamping(testtools.ExtendedToStreamDecorator):
            def status(self, *args, **kwargs):
                kwargs["route_code"] = "stamped"
                return super().status(*args, **kwargs)
        e2s_class = Stamping
    top = e2s_class(testtools.CopyStreamResult([sink, testtools.StreamToExtendedDecorator(far)]))
    detail = lambda: {"history": history}  # noqa: E731
    try:
        H.drive(top, history, details_fn=details_fn)
        crashed = None
        ctx.check(not getattr(far, "unhashable_tests", None), "far.one-bracket-per-test-same-id",
                  lambda: {"replayed test objects that cannot be hashed": far.unhashable_tests[:3], **detail()})
        late = sink.aliasing_problems()
        ctx.check(not late, "stream.events-not-changed-after-delivery",
                  lambda: {"tag sets that changed after the event carrying them was delivered": late, **detail()})
    except Exception:
        import traceback
        crashed = traceback.format_exc(limit=6)
    ctx.check(crashed is None, "conversion.accepts-well-formed-history", lambda: {"error": crashed, **detail()})
    if crashed:
        return True
    # ---- model of what the reporter knew ----------------------------------------------------
    tests = []
    now, run_tags, cur = None, set(), None
    for op in history:
        if op[0] == "startTestRun":
            now, run_tags, cur = None, set(), None
        elif op[0] == "time":
            now = H.TIMES[op[1]]
        elif op[0] == "tags":
            run_tags |= set(op[1])
            run_tags -= set(op[2])
        elif op[0] == "test":
            spec = op[1]
            if spec.get("t0") is not None:
                now = H.TIMES[spec["t0"]]
            t_start = now
            cur = set(run_tags)
            for new, gone in spec.get("tags_in", []):
                cur |= set(new)
                cur -= set(gone)
            if spec.get("t1") is not None:
                now = H.TIMES[spec["t1"]]
            if spec.get("no_start"):
                # reported without startTest (what 3.12.1's skips do): every event of the test is made when
                # the outcome arrives
                t_start = now
            tests.append({"spec": spec, "t_start": t_start, "t_end": now, "tags": frozenset(cur)})
    # ---- stream automaton ---------------------------------------------------------------------
    # split the stream into per-test segments: from an 'inprogress' event to the final status of
    # that id (the same id may be reported several times in one run)
    segments = {}
    open_seg = {}
    for e in slog.of("status"):
        p = e.payload
        tid = p["test_id"]
        if p["test_status"] == "inprogress" or tid not in open_seg:
            open_seg[tid] = []
            segments.setdefault(tid, []).append(open_seg[tid])
        open_seg[tid].append(p)
        if p["test_status"] in FINALS:
            open_seg.pop(tid, None)
    ids = [t["spec"]["id"] for t in tests]
    occurrence = {}
    for t in tests:
        spec = t["spec"]
        k = occurrence.get(spec["id"], 0)
        occurrence[spec["id"]] = k + 1
        evs = (segments.get(spec["id"], []) + [[]] * (k + 1))[k]
        if spec.get("no_start"):
            ctx.check(bool(evs) and not any(p["test_status"] == "inprogress" for p in evs),
                      "stream.inprogress-at-startTest",
                      lambda: {"test": spec["id"], "never started, yet": evs[:2], **detail()})
            body = evs
        else:
            ok = bool(evs) and evs[0]["test_status"] == "inprogress" and evs[0]["file_name"] is None
            if ok and t["t_start"] is not None:
                ok = evs[0]["timestamp"] == t["t_start"]
            elif ok:
                ok = evs[0]["timestamp"] is not None
            ctx.check(ok, "stream.inprogress-at-startTest", lambda: {"test": spec["id"], "events": evs[:2], **detail()})
            body = evs[1:]
        finals = [p for p in body if p["test_status"] in FINALS]
        files = [p for p in body if p["file_name"] is not None]
        ctx.check(len(finals) == 1 and body and body[-1] is finals[0] and finals[0]["file_name"] is None
                  and finals[0]["test_status"] == STATUS[spec["outcome"]]
                  and all(p["test_status"] is None for p in files) and len(files) + 1 == len(body),
                  "stream.one-final-status-after-files",
                  lambda: {"test": spec["id"], "statuses": [(p["test_status"], p["file_name"]) for p in body],
                           **detail()})
        # files: per detail, chunks in order, eof exactly on the last one
        want_files = []
        if spec["form"] in ("details", "reason+details"):
            for it in spec["details"]:
                chunks = [bytes.fromhex(h) for h in it["chunks"]] or [b""]
                ct = repr(ContentType(it["type"][0], it["type"][1], dict(it["type"][2])))
                for i, c in enumerate(chunks):
                    want_files.append((it["name"], c, i == len(chunks) - 1, ct))
        if spec["form"] in ("reason", "reason+details"):
            want_files.append(("reason", spec["reason"].encode("utf8"), True, None))
        got_files = [(p["file_name"], p["file_bytes"], bool(p["eof"]), p["mime_type"]) for p in files]
        if spec["form"] == "exc":
            ok = (len(got_files) >= 1 and all(f[0] == "traceback" for f in got_files)
                  and [f[2] for f in got_files] == [False] * (len(got_files) - 1) + [True]
                  and spec["token"].encode() in b"".join(f[1] for f in got_files))
        else:
            ok = [(f[0], f[1], f[2]) for f in got_files] == [(f[0], f[1], f[2]) for f in want_files] and all(
                w[3] is None or g[3] == w[3] for g, w in zip(got_files, want_files))
        ctx.check(ok, "stream.files-in-chunk-order-eof-on-last",
                  lambda: {"test": spec["id"], "got": got_files, "want": want_files, **detail()})
        if finals:
            f = finals[0]
            ctx.check((f["test_tags"] or frozenset()) == t["tags"], "stream.final-carries-current-tags",
                      lambda: {"got": f["test_tags"], "want": t["tags"], **detail()})
    # ---- far end ------------------------------------------------------------------------------------
    brackets = []
    cur = None
    times = []
    for e in flog.events:
        if e.name == "time":
            times.append(e.payload["time"])
        elif e.name == "startTest":
            cur = {"id": e.test, "before": times, "outs": []}
            times = []
        elif e.name in recorders.OUTCOMES and cur is not None:
            cur["outs"].append(e)
            cur["inside"] = times
            times = []
        elif e.name == "stopTest" and cur is not None:
            brackets.append(cur)
            cur = None
    ctx.check([b["id"] for b in brackets] == ids and all(len(b["outs"]) == 1 for b in brackets),
              "far.one-bracket-per-test-same-id",
              lambda: {"got": [(b["id"], [o.name for o in b["outs"]]) for b in brackets], "want": ids, **detail()})
    if [b["id"] for b in brackets] != ids:
        return bool(tests)
    for b, t in zip(brackets, tests):
        spec = t["spec"]
        if len(b["outs"]) != 1:
            continue
        out = b["outs"][0]
        ctx.check(out.name == FAR[spec["outcome"]], "far.outcome-mapped",
                  lambda: {"test": spec["id"], "got": out.name, "want": FAR[spec["outcome"]], **detail()})
        ctx.check(out.payload["tags"] == t["tags"], "far.tags-at-outcome",
                  lambda: {"test": spec["id"], "got": out.payload["tags"], "want": t["tags"], **detail()})
        got = out.payload["details"] or {}
        if spec["form"] in ("details", "reason+details"):
            want = {}
            for it in spec["details"]:
                data = b"".join(bytes.fromhex(h) for h in it["chunks"])
                if data:
                    want[it["name"]] = (repr(ContentType(it["type"][0], it["type"][1], dict(it["type"][2]))), data)
            if spec["form"] == "reason+details":
                want["reason"] = ('text/plain; charset="utf8"', spec["reason"].encode("utf8"))
            gotc = {n: v for n, v in got.items() if n in want or v[1]}
            ctx.check(gotc == want, "far.details-identical",
                      lambda: {"test": spec["id"], "got": gotc, "want": want, **detail()})
        elif spec["form"] == "exc":
            far_tb = got.get("traceback", ("", b""))[1]
            ctx.check(spec["token"].encode() in far_tb and H.LATER_FRAME not in far_tb, "far.traceback-arrives",
                      lambda: {"test": spec["id"], "got": sorted(got), **detail()})
        if spec["outcome"] == "addSkip":
            reason = spec.get("reason")
            if reason is None:
                rs = [it for it in spec.get("details", []) if it["name"] == "reason"]
                reason = b"".join(bytes.fromhex(h) for h in rs[0]["chunks"]).decode("utf8") if rs else None
            if reason:
                ctx.check(got.get("reason", ("", b""))[1].decode("utf8") == reason, "far.skip-reason",
                          lambda: {"test": spec["id"], "got": got.get("reason"), "want": reason, **detail()})
        def as_supplied(got, want):
            # after time(None) the reporter reads the system clock again: any time, but not a supplied one
            if want is not None:
                return got[-1:] == [want]
            return all(x is not None and x not in H.TIMES for x in got[-1:])
        if t["t_start"] is not None or t["t_end"] is not None:
            ctx.check(as_supplied(b["before"], t["t_start"]) and as_supplied(b.get("inside", []), t["t_end"]),
                      "far.times-as-supplied",
                      lambda: {"test": spec["id"], "before": b["before"], "inside": b.get("inside"),
                               "want": (t["t_start"], t["t_end"]), **detail()})
    return bool(tests)


SUBCHECKS = {"hist": x_hist}

TYPES = [["application", "octet-stream", {}], ["text", "plain", {"charset": "utf8"}], ["text", "plain", {}],
         ["application", "x-log", {"name": "r\xe9sum\xe9 \u2603.txt"}],
         ["text", "x-traceback", {"charset": "utf8", "language": "python"}],
         ["video", "mp4", {"codecs": "avc1.42E01E, mp4a.40.2"}], ["application", "x-foo", {"a": "b c", "z": "1;2"}],
         # parameter values that begin / end with white space (quoted on the wire: they travel as they are)
         ["text", "x-log", {"title": " build log ", "charset": "utf8"}], ["application", "x-note", {"pad": "\u00a0x\t"}]]
NAMES = ["foo", "log", "traceback", "d\xe9tail", "reason2", "bin", ""]


def rand_detail(rng, name):
    t = rng.choice(TYPES)
    n = rng.randint(0, 5)
    chunks = []
    for _ in range(n):
        if rng.random() < 0.3:
            chunks.append("")
        elif t[0] == "text" and "charset" in t[2]:
            chunks.append(rng.choice(["abc", "\xe9t\xe9", "x\ny", "☃"]).encode("utf8").hex())
            if rng.random() < 0.4 and len(chunks[-1]) >= 4:
                # cut inside a multi-byte character: valid as a whole, not chunk by chunk
                whole = bytes.fromhex(chunks.pop())
                cut = rng.randint(1, len(whole) - 1)
                chunks += [whole[:cut].hex(), whole[cut:].hex()]
        else:
            chunks.append(bytes(rng.randrange(256) for _ in range(rng.randint(1, 4))).hex())
    if n >= 2 and rng.random() < 0.3 and not (t[0] == "text" and "charset" in t[2]):
        chunks[-1] = chunks[0]  # the last chunk equals an earlier one
    return {"name": name, "chunks": chunks, "type": t}


def rand_history(rng):
    h = [["startTestRun"]]
    k = 0
    for _ in range(rng.randint(0, 6)):
        x = rng.random()
        if x < 0.25:
            h.append(["tags"] + H.random_tag_change(rng))
        elif x < 0.4:
            h.append(["time", rng.randrange(len(H.TIMES))])
        elif x < 0.48:
            h.append(["failfast", rng.random() < 0.5])     # switched on / off between tests: nothing is lost
        k += 1
        outcome = rng.choice(H.OUTCOMES)
        forms = {"addSuccess": ["none", "details"], "addSkip": ["reason", "details"],
                 "addUnexpectedSuccess": ["none", "details"]}.get(outcome, ["exc", "details"])
        spec = {"id": rng.choice(["t%d", "t\xe9%d", "mod.T.test %d"]) % (k if rng.random() < 0.85 else max(1, k - 1)),
                "outcome": outcome,
                "form": rng.choice(forms), "kind": rng.choice(["placeholder", "testcase"])}
        if rng.random() < 0.03:
            spec["id"] = ""      # an (odd) test id; only None means "no test"
        if spec["form"] == "details":
            spec["details"] = [rand_detail(rng, n) for n in rng.sample(NAMES, rng.randint(0, 4))]
            if outcome == "addSkip" and rng.random() < 0.6:
                spec["details"].append({"name": "reason", "chunks": ["r\xe9ason".encode("utf8").hex()],
                                        "type": ["text", "plain", {"charset": "utf8"}]})
        elif spec["form"] == "exc":
            spec["token"] = "<<X%d>>" % k
        elif spec["form"] == "reason":
            spec["reason"] = rng.choice(["<<R%d>>" % k, "r\xe9ason %d" % k])
            if rng.random() < 0.3:
                # TestResult.addSkip also accepts a reason together with details (no 'reason' detail)
                spec["form"] = "reason+details"
                spec["details"] = [rand_detail(rng, n) for n in rng.sample(NAMES, rng.randint(0, 3))]
        if rng.random() < 0.5:
            spec["t0"] = rng.randrange(len(H.TIMES))
        if rng.random() < 0.5:
            spec["t1"] = rng.randrange(len(H.TIMES))
        if rng.random() < 0.4:
            spec["tags_in"] = [H.random_tag_change(rng) for _ in range(rng.randint(1, 2))]
        if outcome == "addSkip" and rng.random() < 0.3:
            spec["no_start"] = True     # "In Python 3.12.1 skipped tests may not call startTest()"
            spec.pop("tags_in", None)
        elif rng.random() < 0.2:
            spec["tags_after"] = [H.random_tag_change(rng)]    # between the outcome and stopTest: discarded
        h.append(["test", spec])
    h.append(["stopTestRun"])
    return h


def rand_history2(rng):
    """Two consecutive runs through the same ExtendedToStreamDecorator / StreamToExtendedDecorator."""
    a, b = rand_history(rng), rand_history(rng)
    k = sum(1 for op in a if op[0] == "test")
    for op in b:
        if op[0] == "test":
            op[1]["id"] = "r2." + op[1]["id"]
    return a + b


def run(ctx):
    rng = ctx.rng
    n = 0
    chunkings = [[], [""], ["61"], ["", "61"], ["61", ""], ["61", "62"], ["", "", ""], ["61", "", "61"],
                 ["61", "62", "63"], ["", "61", ""]]
    for outcome in H.OUTCOMES:
        forms = {"addSuccess": ["none", "details"], "addSkip": ["reason", "details"],
                 "addUnexpectedSuccess": ["none", "details"]}.get(outcome, ["exc", "details"])
        for form in forms:
            if form != "details":
                variants = [None]
            else:
                variants = [[]] + [[c] for c in chunkings] + [[a, b] for a in chunkings[:6] for b in chunkings[2:8]]
            for v in variants:
                if not ctx.mine():
                    continue
                spec = {"id": "t1", "outcome": outcome, "form": form, "kind": "placeholder", "t0": 1, "t1": 2,
                        "tags_in": [[["a"], []]]}
                if form == "details":
                    spec["details"] = [{"name": ["foo", "bar"][i], "chunks": c, "type": TYPES[i * 3]}
                                       for i, c in enumerate(v)]
                elif form == "exc":
                    spec["token"] = "<<X1>>"
                elif form == "reason":
                    spec["reason"] = "<<R1>>"
                n += 1
                ctx.execute("hist", {"history": [["startTestRun"], ["tags", ["g"], []], ["test", spec],
                                                 ["stopTestRun"]]}, sample=(n % 97 == 0))
    ctx.note_space("6 outcomes x forms x {0, 1, 2 details} x chunkings of <= 3 chunks (incl. empty and "
                   "repeated chunks)", n)
    # a skip reported WITHOUT startTest (3.12.1's unittest does that) right after an ordinary test
    n = 0
    for first in H.OUTCOMES:
        for form in ("reason", "details"):
            for tags in ([], [[["a"], []]]):
                if not ctx.mine():
                    continue
                n += 1
                a = {"id": "t1", "outcome": first, "form": "none" if first in ("addSuccess", "addUnexpectedSuccess") else "exc",
                     "kind": "placeholder", "t0": 1, "t1": 2, "token": "<<X1>>"}
                if first == "addSkip":
                    a.update(form="reason", reason="<<R0>>")
                if tags:
                    a["tags_in"] = tags
                b = {"id": "t2", "outcome": "addSkip", "form": form, "kind": "placeholder", "no_start": True, "t1": 3}
                if form == "reason":
                    b["reason"] = "<<R1>>"
                else:
                    b["details"] = [{"name": "reason", "chunks": ["r\xe9ason".encode("utf8").hex()],
                                     "type": ["text", "plain", {"charset": "utf8"}]}]
                c = dict(a, id="t3")
                ctx.execute("hist", {"history": [["startTestRun"], ["test", a], ["test", b], ["test", c], ["stopTestRun"]]})
    ctx.note_space("ordinary test, skip reported without startTest, ordinary test: 6 first outcomes x 2 skip forms x "
                   "tags on/off", n)
    ctx.notes["random_cases"] = True
    for i in range(ctx.scale(6000, 400000)):
        if ctx.out_of_time():
            break
        r = rng.random()
        if r < 0.2:
            h = rand_history2(rng)
        else:
            h = rand_history(rng)
            if r < 0.3:
                # a legacy runner that never calls startTestRun / stopTestRun: the decorator starts the run itself
                # (what precedes the implicit start - run-level tags / time calls, the time supplied right
                # before the first startTest - is before the run, and is not part of the bracket-less history)
                h = h[1:-1]
                while h and h[0][0] != "test":
                    h.pop(0)
                if h:
                    h[0][1].pop("t0", None)
                    if h[0][1].get("no_start"):
                        h[0][1].pop("t1", None)   # its outcome is the call that starts the run
        ctx.execute("hist", {"history": h, "e2s_subclass": rng.random() < 0.2})
