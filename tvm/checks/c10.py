"""C10 - stream consumers account for every test exactly once."""

import datetime
import itertools

from .. import recorders

PROPERTY = "C10"
LEVEL = "exploration"
RULE = (
    "a case is a finite sequence of status() events bracketed by startTestRun/stopTestRun, fed to "
    "StreamToDict, StreamSummary and StreamToExtendedDecorator(extended recorder) and compared with a "
    "15-line record model keyed by (test id, route code).  Exhaustive: every sequence of length <= "
    "L (quick 3, thorough 4) over a 22-symbol alphabet (2 ids x 2 routes x {inprogress, success, "
    "fail, file chunk, tags-only} + exists + test_id=None); random: sequences up to length 30 over "
    "the full alphabet (8 statuses, empty / non-empty chunks, 3 mime types, 3 timestamps, repeated "
    "finals, events after a final, tag sets incl. the empty set).  Distinct = canonical JSON of the "
    "sequence; non-trivial = at least one event with a test id."
)
REQUIRED = {
    "mon:dict.finals-in-order": 2000,
    "mon:dict.incomplete-at-stop": 2000,
    "mon:summary.testsRun": 2000,
    "mon:summary.buckets": 2000,
    "mon:summary.wasSuccessful": 2000,
    "mon:ext.replay-matches-model": 2000,
}
ASSUMPTIONS = [
    "the order in which incomplete tests are reported at stopTestRun is left open (multiset comparison)",
    "StreamToExtendedDecorator cannot express 'exists' (documented); such events are filtered before the model",
    "text attachments declare a charset their bytes are valid in; the attachment named 'reason' is text",
]

UTC = datetime.timezone.utc
TS = [None, datetime.datetime(2020, 1, 1, tzinfo=UTC), datetime.datetime(2020, 1, 2, tzinfo=UTC),
      datetime.datetime(2019, 12, 31, tzinfo=UTC)]
MIMES = [None, 'text/plain; charset="utf8"', "application/octet-stream",
         # text in another charset / with none declared (ISO-8859-1 by the RFC): still text, e.g. a skip reason
         'text/plain; charset="iso-8859-1"', "text/plain"]
INTERIM = (None, "inprogress")


def ev_kwargs(e):
    kw = {"test_id": e.get("id"), "test_status": e.get("st")}
    if "rc" in e:
        kw["route_code"] = e["rc"]
    if "tags" in e:
        kw["test_tags"] = None if e["tags"] is None else set(e["tags"])
    if "fn" in e:
        kw["file_name"] = e["fn"]
        kw["file_bytes"] = bytes.fromhex(e["fb"])
        kw["mime_type"] = MIMES[e.get("mt", 0)]
        kw["eof"] = bool(e.get("eof"))
    if "ts" in e:
        kw["timestamp"] = TS[e["ts"]]
    return kw


def model(events):
    """Record model: first event creates, each event updates, a final status pops and reports."""
    prog, out = {}, []
    for e in events:
        kw = ev_kwargs(e)
        tid = kw["test_id"]
        if tid is None:
            continue
        key = (tid, kw.get("route_code"))
        if key not in prog:
            prog[key] = {"id": tid, "tags": set(), "files": {}, "mime": {}, "status": "unknown",
                         "ts": [kw.get("timestamp"), None]}
        r = prog[key]
        if kw["test_status"] is not None:
            r["status"] = kw["test_status"]
        r["ts"][1] = kw.get("timestamp")
        if kw.get("file_name") is not None and kw.get("file_bytes"):
            r["files"].setdefault(kw["file_name"], []).append(kw["file_bytes"])
            r["mime"].setdefault(kw["file_name"], kw.get("mime_type"))
        if kw.get("test_tags") is not None:
            r["tags"] = set(kw["test_tags"])
        if kw["test_status"] not in INTERIM:
            out.append(prog.pop(key))
    rest = []
    for r in prog.values():
        r["ts"][1] = None
        rest.append(r)
    return out, rest


def stable(obj):
    """repr() that does not depend on set iteration order (hash seed)."""
    if isinstance(obj, (set, frozenset)):
        return "{" + ",".join(sorted(stable(x) for x in obj)) + "}"
    if isinstance(obj, dict):
        return "{" + ",".join(sorted(stable(k) + ":" + stable(v) for k, v in obj.items())) + "}"
    if isinstance(obj, (list, tuple)):
        return "(" + ",".join(stable(x) for x in obj) + ")"
    return repr(obj)


def canon_model(r):
    return (r["id"], r["status"], frozenset(r["tags"]), tuple(r["ts"]),
            tuple(sorted((k, b"".join(v)) for k, v in r["files"].items())))


def canon_dict(d):
    return (d["id"], d["status"], frozenset(d["tags"]), tuple(d["timestamps"]),
            tuple(sorted((k, b"".join(v.iter_bytes())) for k, v in d["details"].items())))


def x_two_runs(ctx, case):
    """Two runs on the SAME consumer objects: what the second run reports depends only on the
    second run's events."""
    import testtools
    runs = [case["events"], case["events2"]]
    got = []
    s = testtools.StreamToDict(lambda d: got.append(canon_dict(d)))
    ss = testtools.StreamSummary()
    per_run = []
    for events in runs:
        del got[:]
        s.startTestRun()
        ss.startTestRun()
        for e in events:
            s.status(**ev_kwargs(e))
            ss.status(**ev_kwargs(e))
        n_fin = len(got)
        s.stopTestRun()
        ss.stopTestRun()
        fin, rest = model(events)
        ctx.check(got[:n_fin] == [canon_model(r) for r in fin] and
                  sorted(map(stable, got[n_fin:])) == sorted(stable(canon_model(r)) for r in rest),
                  "dict.finals-in-order", lambda: {"two-runs": True, "got": list(got), "events": events})
        counted = [r for r in fin + rest if r["status"] != "exists"]
        bad = [r for r in counted if r["status"] in ("fail", "inprogress", "unknown")]
        ctx.check(ss.testsRun == len(counted) and len(ss.errors) == len(bad)
                  and ss.wasSuccessful() == (not bad), "summary.testsRun",
                  lambda: {"two-runs": True, "testsRun": ss.testsRun, "want": len(counted),
                           "errors": len(ss.errors), "events": events})
    return True


ORDER = [("test_id", None), ("test_status", None), ("test_tags", None), ("runnable", True), ("file_name", None),
         ("file_bytes", None), ("eof", False), ("mime_type", None), ("route_code", None), ("timestamp", None)]
POSITIONAL = [False]


def _feed(ctx, consumer, events, who):
    """status() for each event; an exception on a well-formed event is the consumer's fault, not the harness'.
    (POSITIONAL: every argument by position, in the order StreamResult.status documents - what replaying a
    recorded event tuple with ``result.status(*event)`` does.)"""
    for e in events:
        try:
            if POSITIONAL[0]:
                kw = ev_kwargs(e)
                consumer.status(*[kw.get(k, d) for k, d in ORDER])
            else:
                consumer.status(**ev_kwargs(e))
        except Exception as exc:  # noqa
            ctx.check(False, "consumer.accepts-every-event",
                      lambda: {"consumer": who, "event": e, "error": repr(exc), "events": events})
        else:
            ctx.count("mon:consumer.accepts-every-event")


def x_seq(ctx, case):
    import testtools
    events = case["events"]
    POSITIONAL[0] = bool(case.get("positional"))
    detail = lambda: {"events": events}  # noqa: E731
    fin, rest = model(events)
    # ---- StreamToDict ---------------------------------------------------------------------
    got = []
    s = testtools.StreamToDict(lambda d: got.append(canon_dict(d)))
    s.startTestRun()
    _feed(ctx, s, events, "StreamToDict")
    n_fin = len(got)
    s.stopTestRun()
    ctx.check(got[:n_fin] == [canon_model(r) for r in fin], "dict.finals-in-order",
              lambda: {"got": got[:n_fin], "want": [canon_model(r) for r in fin], **detail()})
    ctx.check(sorted(map(stable, got[n_fin:])) == sorted(stable(canon_model(r)) for r in rest),
              "dict.incomplete-at-stop",
              lambda: {"got": got[n_fin:], "want": [canon_model(r) for r in rest], **detail()})
    # ---- StreamSummary --------------------------------------------------------------------
    ss = testtools.StreamSummary()
    ss.startTestRun()
    _feed(ctx, ss, events, "StreamSummary")
    ss.stopTestRun()
    allr = fin + rest
    counted = [r for r in allr if r["status"] != "exists"]
    ctx.check(ss.testsRun == len(counted), "summary.testsRun",
              lambda: {"testsRun": ss.testsRun, "want": len(counted), **detail()})

    def ids(bucket):
        # (key=repr: a test recorded under the id None is a violation to report, not something to trip over)
        return sorted((t[0].id() if isinstance(t, tuple) else t.id() for t in bucket), key=lambda i: (i is None, i or ""))

    want = {
        "errors": sorted(r["id"] for r in counted if r["status"] in ("fail", "inprogress", "unknown")),
        "skipped": sorted(r["id"] for r in counted if r["status"] == "skip"),
        "expectedFailures": sorted(r["id"] for r in counted if r["status"] == "xfail"),
        "unexpectedSuccesses": sorted(r["id"] for r in counted if r["status"] == "uxsuccess"),
        "failures": [],
    }
    have = {k: ids(getattr(ss, k)) for k in want}
    ctx.check(have == want, "summary.buckets", lambda: {"have": have, "want": want, **detail()})
    ctx.check(ss.wasSuccessful() == (not want["errors"]), "summary.wasSuccessful",
              lambda: {"wasSuccessful": ss.wasSuccessful(), "errors": want["errors"], **detail()})
    # ---- StreamToExtendedDecorator --------------------------------------------------------
    ev2 = [e for e in events if e.get("st") != "exists"]
    fin2, rest2 = model(ev2)
    log = recorders.Log()
    d = testtools.StreamToExtendedDecorator(recorders.ExtRecorder(log))
    d.startTestRun()
    _feed(ctx, d, events, "StreamToExtendedDecorator")
    n_before_stop = len(log.events)
    d.stopTestRun()

    def replayed(evs):
        """[(id, outcome, tags, details, [times])] per bracket."""
        out, cur, times = [], None, []
        for e in evs:
            if e.name == "time":
                times.append(e.payload["time"])
            elif e.name == "startTest":
                cur = {"id": e.test, "times_before": list(times), "outcome": None}
                times = []
            elif e.name in recorders.OUTCOMES and cur is not None:
                cur["outcome"] = e.name
                cur["tags"] = e.payload["tags"]
                cur["details"] = tuple(sorted((k, v[1]) for k, v in (e.payload["details"] or {}).items()))
                cur["times_inside"] = list(times)
                times = []
            elif e.name == "stopTest" and cur is not None:
                out.append(cur)
                cur = None
        return out

    status_map = {"inprogress": "addFailure", "unknown": "addFailure", "success": "addSuccess",
                  "skip": "addSkip", "fail": "addFailure", "xfail": "addExpectedFailure",
                  "uxsuccess": "addUnexpectedSuccess"}

    def want_bracket(r):
        return {"id": r["id"], "outcome": status_map[r["status"]], "tags": frozenset(r["tags"]),
                "details": tuple(sorted((k, b"".join(v)) for k, v in r["files"].items())),
                "times_before": [r["ts"][0]] if r["ts"][0] is not None else [],
                "times_inside": [r["ts"][1]] if r["ts"][1] is not None else []}

    got_fin = replayed(log.events[:n_before_stop])
    got_rest = replayed(log.events[n_before_stop:])
    ctx.check(got_fin == [want_bracket(r) for r in fin2], "ext.replay-matches-model",
              lambda: {"got": got_fin, "want": [want_bracket(r) for r in fin2], **detail()})
    def key(b):
        return stable(b)

    ctx.check(sorted(map(key, got_rest)) == sorted(key(want_bracket(r)) for r in rest2),
              "ext.incomplete-at-stop",
              lambda: {"got": got_rest, "want": [want_bracket(r) for r in rest2], **detail()})
    names = log.names()
    ctx.check(names.count("startTestRun") == 1 and names.count("stopTestRun") == 1
              and names[0] == "startTestRun" and names[-1] == "stopTestRun", "ext.run-bracket",
              lambda: {"names": names})
    # ---- the same replay into results of the older protocols (what StreamToExtendedDecorator wraps its target in
    #      degrades the outcomes they lack): still one bracket per test, in order, with the degraded outcome
    for flavour, cls, degrade in (("py26", recorders.Py26Recorder, {"addSkip": "addSuccess", "addExpectedFailure": "addSuccess",
                                                                     "addUnexpectedSuccess": "addFailure"}),
                                  ("py27", recorders.Py27Recorder, {})):
        log2 = recorders.Log()
        d2 = testtools.StreamToExtendedDecorator(cls(log2))
        d2.startTestRun()
        _feed(ctx, d2, events, "StreamToExtendedDecorator over a %s result" % flavour)
        d2.stopTestRun()
        got2 = [(e.test, e.name) for e in log2.events if e.name in recorders.OUTCOMES]
        started = [e.test for e in log2.events if e.name == "startTest"]
        stopped = [e.test for e in log2.events if e.name == "stopTest"]
        want2 = [(r["id"], degrade.get(status_map[r["status"]], status_map[r["status"]])) for r in fin2 + rest2]
        # ... and what such a result is TOLD about a failure holds every UTF-8 text attachment of the test (the details
        # travel as one synthetic exception there), not just the traceback
        for ev in log2.events:
            err = (ev.payload or {}).get("err") if ev.name in ("addFailure", "addError", "addExpectedFailure") else None
            recs = [r for r in fin2 + rest2 if r["id"] == ev.test]
            if err is None or len(recs) != 1 or recs[0]["status"] != "fail":
                # (an id reported more than once: which record the event belongs to is not decided here; an unexpected
                # success degraded to a failure carries no details by design; incomplete tests: not asked)
                continue
            missing = []
            for name, chunks in recs[0]["files"].items():
                data = b"".join(chunks)
                if recs[0]["mime"].get(name) == MIMES[1] and data:
                    text = data.decode("utf8")
                    if text not in err[1]:
                        missing.append((name, text))
            ctx.check(not missing, "ext.replay-matches-model",
                      lambda: {"target": flavour, "test": ev.test, "text attachments missing from what the result was told": missing,
                               "told": err[1][-300:], **detail()})
        ctx.check(sorted(map(repr, got2)) == sorted(map(repr, want2)) and got2[:len(fin2)] == want2[:len(fin2)]
                  and sorted(map(repr, started)) == sorted(map(repr, stopped)) == sorted(repr(r["id"]) for r in fin2 + rest2),
                  "ext.replay-matches-model",
                  lambda: {"target": flavour, "outcomes": got2, "want": want2, "started": started, "stopped": stopped, **detail()})
    return any(e.get("id") is not None for e in events)


def x_callbacks(ctx, case):
    """(a) an on_test callback that reacts to a finished test by ending the run on the very consumer that called it
    (a fail-fast driver): every test is still reported once - the finished one not a second time, the ones still
    running as incomplete; (b) StreamSummary mixed into a class after CopyStreamResult (what
    ExtendedToStreamDecorator itself is): tests still running when the run stops are flushed as in StreamSummary."""
    import testtools
    events = case["events"]
    return _callbacks(ctx, case, testtools, events)


def _callbacks(ctx, case, testtools, events):
    got = []
    holder = {}

    def on_test(d):
        got.append((d["id"], d["status"]))
        if case["stop_on"] == d["status"] and not holder.get("stopped"):
            holder["stopped"] = True
            holder["s"].stopTestRun()
    s = holder["s"] = testtools.StreamToDict(on_test)
    s.startTestRun()
    fed = 0
    for e in events:
        if holder.get("stopped"):
            break
        fed += 1
        s.status(**ev_kwargs(e))
    if not holder.get("stopped"):
        s.stopTestRun()
    # the same events up to there, the run ended from OUTSIDE afterwards: the same reports, each once
    ref = []
    s2 = testtools.StreamToDict(lambda d: ref.append((d["id"], d["status"])))
    s2.startTestRun()
    for e in events[:fed]:
        s2.status(**ev_kwargs(e))
    s2.stopTestRun()
    ctx.check(sorted(map(repr, got)) == sorted(map(repr, ref)), "dict.finals-in-order",
              lambda: {"a callback ended the run from inside on_test; reported": got,
                       "the run ended from outside after the same events": ref, "events": events[:fed]})

    class Tee(testtools.CopyStreamResult, testtools.StreamSummary):
        def __init__(self, targets):
            testtools.CopyStreamResult.__init__(self, targets)
            testtools.StreamSummary.__init__(self)
    plain = testtools.StreamSummary()
    tee = Tee([recorders.StreamRecorder()])
    for r in (plain, tee):
        r.startTestRun()
        for e in events:
            r.status(**ev_kwargs(e))
        r.stopTestRun()
    same = (tee.testsRun == plain.testsRun and len(tee.errors) == len(plain.errors)
            and tee.wasSuccessful() == plain.wasSuccessful())
    ctx.check(same, "summary.testsRun",
              lambda: {"class Tee(CopyStreamResult, StreamSummary)": (tee.testsRun, len(tee.errors), tee.wasSuccessful()),
                       "StreamSummary": (plain.testsRun, len(plain.errors), plain.wasSuccessful()), "events": events})
    return True


def _guarded(fn, who):
    """An exception coming out of testtools on well-formed events is the consumer's fault, not the harness'."""
    def run(ctx, case):
        try:
            return fn(ctx, case)
        except Exception as exc:  # noqa
            import traceback
            t = exc.__traceback__
            while t.tb_next is not None:
                t = t.tb_next
            if "/tvm/" in t.tb_frame.f_code.co_filename:      # raised by the harness' own code
                raise
            tb = traceback.format_exc()
            ctx.check(False, "consumer.accepts-every-event",
                      lambda: {"consumer": who, "error": repr(exc), "traceback": tb[-1500:], "events": case.get("events")})
            return True
    return run


SUBCHECKS = {"seq": x_seq, "two_runs": _guarded(x_two_runs, "StreamToDict / StreamSummary over two runs"),
             "callbacks": _guarded(x_callbacks, "StreamToDict / StreamSummary (callbacks sub-check)")}


def alphabet():
    syms = []
    for tid in ("a", "b"):
        for rc in (None, "0"):
            base = {"id": tid}
            if rc is not None:
                base["rc"] = rc
            syms.append(dict(base, st="inprogress", ts=1))
            syms.append(dict(base, st="success", ts=2))
            syms.append(dict(base, st="fail", tags=["t"]))
            syms.append(dict(base, st=None, fn="f", fb="3132", mt=2))
            syms.append(dict(base, st=None, tags=[]))
    syms.append({"id": "a", "st": "exists"})
    syms.append({"id": "a", "st": "unknown"})     # a final state too (what StreamToDict itself reports)
    syms.append({"id": None, "st": None, "fn": "g", "fb": "78", "mt": 2})
    return syms


def random_event(rng):
    e = {"id": rng.choice([None, "a", "a", "b", "b", "c", ""]),      # "" is an (odd) test id, None is "no test"
         "st": rng.choice([None, None, "inprogress", "success", "fail", "exists", "skip", "xfail",
                           "uxsuccess", "unknown"])}
    if rng.random() < 0.5:
        e["rc"] = rng.choice([None, "0", "0/1", ""])     # "" is a route code of its own, not "no route code"
    if rng.random() < 0.45:
        e["tags"] = rng.choice([None, [], ["x"], ["x", "y"], ["z"]])
    if rng.random() < 0.45:
        e["fn"] = rng.choice(["f", "g", "reason", "traceback"])
        e["fb"] = rng.choice(["", "31", "3232", "c3a9"])
        # the attachment called 'reason' is by convention text (StreamSummary renders it)
        if e["fn"] == "reason":
            # (every chunk of one attachment declares the same type: the reason's charset goes with the test id)
            e["mt"] = {"b": 3, "c": 4}.get(e["id"], 1)
            if e["mt"] in (3, 4):
                e["fb"] = rng.choice(["", "31", "e974e9", "a0"])        # bytes that are Latin-1 text and not UTF-8
        else:
            e["mt"] = rng.randrange(3)
        e["eof"] = rng.random() < 0.5
    if rng.random() < 0.8:
        e["ts"] = rng.randrange(4)
    return e


def run(ctx):
    rng = ctx.rng
    syms = alphabet()
    maxlen = 3 if ctx.quick else 4
    n = 0
    for L in range(0, maxlen + 1):
        for seq in itertools.product(range(len(syms)), repeat=L):
            if ctx.mine():
                n += 1
                ctx.execute("seq", {"events": [syms[i] for i in seq]}, sample=(n % 997 == 0))
    ctx.note_space("all event sequences of length <= %d over a %d-symbol alphabet" % (maxlen, len(syms)), n)
    # a text attachment that arrives in chunks splitting a multi-byte character (a non-ASCII reason or traceback
    # streamed in pieces): the consumers that render it (StreamSummary) still account for the test
    n = 0
    for st in ("skip", "fail", "xfail", "success", "uxsuccess", None):
        for fn in ("reason", "traceback", "log"):
            for tail in ([], [{"id": "b", "st": "success"}]):
                if not ctx.mine():
                    continue
                n += 1
                ev = [{"id": "a", "st": "inprogress", "ts": 1},
                      {"id": "a", "st": None, "fn": fn, "fb": "636166c3", "mt": 1},
                      {"id": "b", "st": "inprogress"} if tail else {"id": "a", "st": None, "tags": ["x"]},
                      {"id": "a", "st": None, "fn": fn, "fb": "a920e298", "mt": 1},
                      {"id": "a", "st": None, "fn": fn, "fb": "83", "mt": 1, "eof": True}]
                if st is not None:
                    ev.append({"id": "a", "st": st, "ts": 2})
                ctx.execute("seq", {"events": ev + tail})
    ctx.note_space("a UTF-8 text attachment streamed in chunks that split multi-byte characters: 6 final statuses x 3 "
                   "names x interleaved or not", n)
    ctx.notes["random_cases"] = True
    for i in range(ctx.scale(6000, 400000)):
        if ctx.out_of_time():
            break
        if rng.random() < 0.15:
            ctx.execute("two_runs", {"events": [random_event(rng) for _ in range(rng.randint(0, 12))],
                                     "events2": [random_event(rng) for _ in range(rng.randint(0, 12))]})
        else:
            ctx.execute("seq", {"events": [random_event(rng) for _ in range(rng.randint(0, 30))],
                                "positional": rng.random() < 0.3})
            if rng.random() < 0.15:
                ctx.execute("callbacks", {"events": [random_event(rng) for _ in range(rng.randint(1, 20))],
                                          "stop_on": rng.choice(["fail", "success", "skip"])})
