"""C11 - stream decorators forward each event once, change only their field, never alias."""

import datetime
import queue as queue_mod

from .. import recorders

PROPERTY = "C11"
LEVEL = "exploration"
RULE = (
    "a case is (decorator tree, event history).  Trees: depth 1..3, fan-out 1..3 over "
    "CopyStreamResult, StreamTagger(add, discard), TimestampingStreamResult, with leaves recording "
    "sink / StreamToQueue(code) (drained afterwards) / StreamFailFast(callback).  Histories: "
    "startTestRun, status events (all fields by keyword; test_tags None / set / frozenset / omitted; "
    "timestamp omitted / None / supplied; route codes None or nested) and stopTestRun, possibly "
    "several runs.  The oracle composes per-decorator transfer functions along each root-to-leaf "
    "path; caller-owned argument objects are snapshotted before each call and compared after, and "
    "each sink compares what it was handed with its on-receipt snapshot at the end.  All trees of "
    "depth <= 2 from a small generator set are enumerated; random beyond.  Distinct = canonical JSON "
    "of (tree, history); non-trivial = at least one decorator that owns a field and one status event."
)
REQUIRED = {
    "mon:fanout.targets-in-listed-order": 1000,
    "mon:leaf.log==composed-transfer": 3000,
    "mon:caller.arguments-not-mutated": 3000,
    "mon:sink.no-late-mutation-of-received-objects": 1000,
    "mon:stamp.filled-with-utc-now": 200,
    "mon:failfast.callback-count": 200,
    "mon:queue.each-event-a-fresh-complete-dict": 500,
}
ASSUMPTIONS = [
    "fields beyond test_id / test_status are passed by keyword (positional pass-through of *args is "
    "not part of the statement)",
    "sinks do not mutate the objects they are handed",
    "'current UTC time' is checked as: timezone-aware, utcoffset 0, between the instants read just "
    "before and just after the call",
]

UTC = datetime.timezone.utc
T0 = datetime.datetime(2022, 2, 2, 2, 2, 2, tzinfo=UTC)
OMIT = "__omit__"


class _EmptyIsFalsy(recorders.StreamRecorder):
    def __len__(self):
        return len(self.live)


class _EqualSink(recorders.StreamRecorder):
    """Sinks with value equality (two per-worker collectors configured alike compare equal): still two targets."""
    def __eq__(self, other):
        return isinstance(other, _EqualSink)

    def __ne__(self, other):
        return not self.__eq__(other)

    __hash__ = None


class SinkBroke(Exception):
    pass


class _RaisingSink(recorders.StreamRecorder):
    """A sink that records the call and then fails on its n-th one (a collector whose disk is full)."""
    def __init__(self, log, name, nth):
        super().__init__(log, name)
        self.nth, self.calls = nth, 0

    def _count(self):
        self.calls += 1
        if self.calls == self.nth:
            raise SinkBroke("%s fails on call %d" % (self.name, self.nth))

    def startTestRun(self):
        super().startTestRun()
        self._count()

    def stopTestRun(self):
        super().stopTestRun()
        self._count()

    def status(self, *a, **kw):
        super().status(*a, **kw)
        self._count()


def build(node, leaves, path, log):
    """Instantiate a tree; leaves[] gets (kind, path-of-transfers, object)."""
    import testtools
    kind = node[0]
    if kind == "sink":
        # ("empty": a collecting sink that, like a list, is falsy while it has collected nothing)
        if len(node) > 2 and node[1] == "raise_on":
            s = _RaisingSink(log, "L%d" % len(leaves), node[2])
            leaves.append(("sink", list(path), s))
            return s
        cls = {"empty": _EmptyIsFalsy, "eq": _EqualSink}.get(node[1] if len(node) > 1 else None, recorders.StreamRecorder)
        s = cls(log, "L%d" % len(leaves))
        leaves.append(("sink", list(path), s))
        return s
    if kind == "queue":
        q = queue_mod.Queue()
        if len(node) > 2 and node[2] == "dotted":
            # a subclass overriding the public route_code() hook ("adjust route_code on the way through"): dots
            class Dotted(testtools.StreamToQueue):
                def route_code(self, route_code):
                    return self.routing_code if route_code is None else self.routing_code + "." + route_code
            s = Dotted(q, node[1])
            leaves.append(("queue", list(path) + [("queue", node[1], ".")], (s, q)))
            return s
        s = testtools.StreamToQueue(q, node[1])
        leaves.append(("queue", list(path) + [("queue", node[1])], (s, q)))
        return s
    if kind == "failfast":
        calls = []
        s = testtools.StreamFailFast(lambda: calls.append(1))
        leaves.append(("failfast", list(path), calls))
        return s
    if kind == "copy":
        return testtools.CopyStreamResult([build(c, leaves, path, log) for c in node[1]])
    if kind == "tagger":
        p = path + [("tagger", frozenset(node[1]), frozenset(node[2]))]
        # "an iterable of tags": a list the caller keeps, one-shot iterators, or a scratch list the caller
        # empties and refills (to build the next sibling) straight after constructing this tagger
        mode = node[4] if len(node) > 4 else "list"
        kids = [build(c, leaves, p, log) for c in node[3]]
        add, discard = list(node[1]), list(node[2])
        if mode == "iter":
            return testtools.StreamTagger(kids, add=iter(add) if add else None,
                                          discard=(t for t in discard) if discard else None)
        if mode == "set":
            add, discard = set(add), set(discard)
        if mode == "positional":
            # the way doc/for-framework-folk.rst constructs one: StreamTagger([targets], add, discard)
            return testtools.StreamTagger(kids, add or None, discard or None)
        t = testtools.StreamTagger(kids, add=add or None, discard=discard or None)
        if mode == "mutated":
            del add[:], discard[:]
            add.append("callers-next-tag")
            discard.extend(node[1])
        return t
    if kind == "stamp":
        return testtools.TimestampingStreamResult(build(node[1], leaves, path + [("stamp",)], log))
    raise ValueError(kind)


def mk_kwargs(e):
    kw = {"test_id": e.get("id"), "test_status": e.get("st")}
    tags = e.get("tags", OMIT)
    if tags != OMIT:
        if tags is None:
            kw["test_tags"] = None
        elif e.get("frozen"):
            kw["test_tags"] = frozenset(tags)
        else:
            kw["test_tags"] = set(tags)
    ts = e.get("ts", OMIT)
    if ts != OMIT:
        kw["timestamp"] = None if ts is None else T0 + datetime.timedelta(seconds=ts)
    if "rc" in e:
        kw["route_code"] = e["rc"]
    if "fn" in e:
        kw.update(file_name=e["fn"], file_bytes=bytes.fromhex(e["fb"]), eof=bool(e.get("eof")),
                  mime_type=e.get("mt"))
    if "runnable" in e:
        kw["runnable"] = e["runnable"]
    if e.get("eof_only"):
        kw["eof"] = True        # (a field like any other: an event that closes nothing in particular is passed on as it is)
    return kw


def apply_path(path, fields):
    """Compose the transfer functions; timestamp 'NOW' marks a value to be range-checked."""
    f = dict(fields)
    for step in path:
        if step[0] == "tagger":
            tags = set(f["test_tags"] or ())
            tags |= step[1]
            tags -= step[2]
            f["test_tags"] = frozenset(tags) if tags else None
        elif step[0] == "stamp":
            if f["timestamp"] is None:
                f["timestamp"] = "NOW"
        elif step[0] == "queue":
            sep = step[2] if len(step) > 2 else "/"
            f["route_code"] = step[1] if f["route_code"] is None else step[1] + sep + f["route_code"]
    return f


def full(kw):
    d = dict(test_id=None, test_status=None, test_tags=None, runnable=True, file_name=None,
             file_bytes=None, eof=False, mime_type=None, route_code=None, timestamp=None)
    d.update(kw)
    if d["test_tags"] is not None:
        d["test_tags"] = frozenset(d["test_tags"])
    return d


def x_tree(ctx, case):
    tree, history = case["tree"], case["history"]
    log = recorders.Log()
    leaves = []
    root = build(tree, leaves, [], log)
    expected = [[] for _ in leaves]
    # StreamTagger / TimestampingStreamResult read their field from the keywords; positional calls are
    # only part of the domain for trees made of CopyStreamResult and leaves
    positional_ok = not any(k in repr(tree) for k in ("tagger", "stamp"))
    windows = []
    n_status = 0
    detail = lambda: {"tree": tree, "history": history}  # noqa: E731
    drained = {i: [] for i, (kind, path, obj) in enumerate(leaves) if kind == "queue"}
    seen_dicts = []

    def drain():
        # the documented consumer (ConcurrentStreamTestSuite.run) pops "event" off each dict it dequeues
        for i in drained:
            s, q = leaves[i][2]
            while not q.empty():
                d = q.get()
                fresh = not any(d is o for o in seen_dicts)
                seen_dicts.append(d)
                name = d.pop("event", None) if isinstance(d, dict) else None
                ctx.check(fresh and name is not None, "queue.each-event-a-fresh-complete-dict",
                          lambda: {"leaf": i, "dequeued": repr(d), "fresh object": fresh, **detail()})
                if case.get("reuse_set") and name == "status" and d.get("test_tags") is not None:
                    # (the caller refills its one set for the next event: what the consumer saw is what it holds NOW)
                    d["test_tags"] = frozenset(d["test_tags"])
                drained[i].append((name, d))

    def in_listed_order(mark, what):
        # one call fans out to the targets in the order they were listed (depth first): the recording sinks' turns
        # in the shared log never go backwards
        turns = [int(e.payload["sink"][1:]) for e in log.events[mark:] if e.payload and e.payload.get("sink")]
        ctx.check(turns == sorted(turns), "fanout.targets-in-listed-order",
                  lambda: {"call": what, "sinks reached, in order": turns, **detail()})

    working = set()       # (reuse_set: the one set object the caller fills afresh for every event)

    def reached(call):
        """Leaves the call gets to: all of them - or, when a sink fails on it, those up to and including that one
        (the error leaves through every decorator above it: the call was not completed, nobody is told anything else)."""
        try:
            call()
            broke = None
        except SinkBroke as e:
            broke = e
        if broke is None:
            return range(len(leaves))
        culprit = [i for i, (kind, path, obj) in enumerate(leaves)
                   if isinstance(obj, _RaisingSink) and obj.calls == obj.nth and obj.name in str(broke)]
        return range(culprit[0] + 1)

    for op in history:
        drain()
        mark = len(log.events)
        if op == "start":
            got_to = reached(root.startTestRun)
            in_listed_order(mark, "startTestRun")
            for i, (kind, path, obj) in enumerate(leaves):
                if kind != "failfast" and i in got_to:
                    expected[i].append(("startTestRun", None))
        elif op == "stop":
            got_to = reached(root.stopTestRun)
            in_listed_order(mark, "stopTestRun")
            for i, (kind, path, obj) in enumerate(leaves):
                if kind != "failfast" and i in got_to:
                    expected[i].append(("stopTestRun", None))
        else:
            kw = mk_kwargs(op)
            if case.get("reuse_set") and isinstance(kw.get("test_tags"), set):
                working.clear()
                working.update(kw["test_tags"])
                kw["test_tags"] = working
            n_status += 1
            caller_tags = kw.get("test_tags")
            snap_tags = None if caller_tags is None else frozenset(caller_tags)
            snap_type = type(caller_tags)
            snap_kw = {k: v for k, v in kw.items() if k != "test_tags"}
            before = datetime.datetime.now(UTC)
            npos = op.get("npos", 0) if positional_ok else 0
            got_to = range(len(leaves))
            try:
                if npos:
                    f0 = full(kw)
                    f0["test_tags"] = kw.get("test_tags")
                    order = recorders.STREAM_FIELDS
                    args = [f0[k] for k in order[:npos]]
                    got_to = reached(lambda: root.status(*args, **{k: v for k, v in kw.items() if k not in order[:npos]}))
                else:
                    got_to = reached(lambda: root.status(**kw))
                refused = None
            except Exception as e:  # noqa
                refused = e
            ctx.check(refused is None, "decorator.accepts-the-call",
                      lambda: {"event": op, "error": repr(refused), **detail()})
            in_listed_order(mark, "status")
            after = datetime.datetime.now(UTC)
            windows.append((before, after))
            ok = (kw.get("test_tags") is caller_tags and type(caller_tags) is snap_type
                  and (caller_tags is None or frozenset(caller_tags) == snap_tags)
                  and {k: v for k, v in kw.items() if k != "test_tags"} == snap_kw)
            ctx.check(ok, "caller.arguments-not-mutated",
                      lambda: {"event": op, "tags before": snap_tags, "tags after": caller_tags, **detail()})
            f = full(kw)
            for i, (kind, path, obj) in enumerate(leaves):
                if i in got_to:
                    expected[i].append(("status", apply_path(path, f), len(windows) - 1))

    def compare(i, got, what):
        want = expected[i]
        ok = len(got) == len(want)
        if ok:
            for g, w in zip(got, want):
                if g[0] != w[0]:
                    ok = False
                    break
                if g[0] != "status":
                    continue
                gf, wf = dict(g[1]), dict(w[1])
                if wf["timestamp"] == "NOW":
                    ts = gf["timestamp"]
                    lo, hi = windows[w[2]]
                    good = (ts is not None and ts.tzinfo is not None
                            and ts.utcoffset() == datetime.timedelta(0) and lo <= ts <= hi)
                    ctx.check(good, "stamp.filled-with-utc-now",
                              lambda: {"timestamp": repr(ts), "window": (repr(lo), repr(hi)), **detail()})
                    gf.pop("timestamp")
                    wf.pop("timestamp")
                if gf != wf:
                    ok = False
                    break
        ctx.check(ok, "leaf.log==composed-transfer",
                  lambda: {"leaf": i, "kind": what, "got": got, "want": want, **detail()})

    for i, (kind, path, obj) in enumerate(leaves):
        if kind == "sink":
            got = []
            for e in log.events:
                if e.payload["sink"] != obj.name:
                    continue
                if e.name == "status":
                    p = dict(e.payload)
                    p.pop("sink")
                    got.append(("status", p))
                else:
                    got.append((e.name, None))
            compare(i, got, "sink")
            # (with reuse_set the caller itself changes the set it handed in: pass-through paths hand it on as it is)
            ctx.check(case.get("reuse_set") or not obj.aliasing_problems(), "sink.no-late-mutation-of-received-objects",
                      lambda: {"leaf": i, "problems": obj.aliasing_problems(), **detail()})
        elif kind == "queue":
            s, q = obj
            got = []
            drain()
            for name, d in drained[i]:
                if name is None:
                    continue
                if name == "status":
                    if d["test_tags"] is not None:
                        d["test_tags"] = frozenset(d["test_tags"])
                    got.append(("status", d))
                else:
                    ctx.check(d.get("result") is s, "queue.start-stop-carry-their-result")
                    got.append((name, None))
            compare(i, got, "queue")
        else:
            fails = sum(1 for w in expected[i] if w[0] == "status"
                        and w[1]["test_status"] in ("fail", "uxsuccess"))
            ctx.check(len(obj) == fails, "failfast.callback-count",
                      lambda: {"calls": len(obj), "want": fails, **detail()})
    owns = "tagger" in repr(tree) or "stamp" in repr(tree) or "queue" in repr(tree)
    return owns and n_status > 0


SUBCHECKS = {"tree": x_tree}

LEAVES = [["sink"], ["queue", "0"], ["failfast"]]


def unary_wrappers(child):
    yield ["copy", [child]]
    yield ["tagger", ["a"], [], [child]]
    yield ["tagger", [], ["x"], [child]]
    yield ["tagger", ["a", "b"], ["x", "a"], [child]]
    yield ["tagger", ["a", "b"], ["x"], [child], "iter"]
    yield ["tagger", ["a"], ["x"], [child], "mutated"]
    yield ["tagger", ["a"], ["x"], [child], "positional"]
    yield ["stamp", child]


def small_trees():
    d1 = list(LEAVES)
    d2 = []
    for leaf in LEAVES:
        d2.extend(unary_wrappers(leaf))
    d2.append(["copy", [["sink"], ["sink"]]])
    d2.append(["copy", [["sink", "empty"], ["sink"]]])
    d2.append(["copy", [["queue", "7", "dotted"], ["sink"]]])
    d2.append(["tagger", ["a"], [], [["queue", "7", "dotted"]]])
    d2.append(["tagger", ["a"], [], [["sink", "empty"]]])
    d2.append(["stamp", ["sink", "empty"]])
    d2.append(["copy", [["sink"], ["queue", "1"], ["failfast"]]])
    d2.append(["tagger", ["a"], ["x"], [["sink"], ["sink"]]])
    d3 = []
    for t in d2:
        d3.extend(unary_wrappers(t))
    d3.append(["copy", [["tagger", ["a"], [], [["sink"]]], ["tagger", ["b"], [], [["sink"]]], ["sink"]]])
    d3.append(["copy", [["tagger", [], ["x"], [["sink"]]], ["stamp", ["sink"]], ["sink"]]])
    d3.append(["tagger", ["t"], [], [["tagger", ["u"], ["t"], [["sink"]]], ["sink"]]])
    return d1 + d2, d3


STD_HISTORY = [
    "start",
    {"id": "a", "st": "inprogress"},
    {"id": "a", "st": "fail", "tags": ["x", "y"], "ts": 5},
    {"id": "b", "st": "uxsuccess", "tags": ["x"], "frozen": True, "ts": None, "rc": "7"},
    {"id": None, "st": None, "fn": "f", "fb": "6162", "eof": True, "mt": "text/plain", "tags": None},
    {"id": "c", "st": "success", "tags": [], "rc": "0/1", "runnable": False},
    {"id": "d", "st": "xfail", "tags": ["a"], "ts": 0},
    {"id": "e", "st": None, "fn": "", "fb": "6869", "eof": True},
    {"id": "e", "st": "inprogress", "ts": 10 ** 9},
    {"id": "e", "st": "success"},
    "stop",
]


def random_tree(rng, depth):
    if depth == 0 or rng.random() < 0.25:
        return list(rng.choice(LEAVES + [["sink"], ["sink"], ["sink", "empty"], ["queue", rng.choice(["0", "1", "0/2", "h%3A80", "100%", "{0}"])],
                                         ["queue", "7", "dotted"], ["sink", "eq"], ["sink", "eq"],
                                         ["sink", "raise_on", rng.randint(1, 6)]]))
    r = rng.random()
    kids = lambda: [random_tree(rng, depth - 1) for _ in range(rng.randint(1, 3))]  # noqa: E731
    if r < 0.35:
        return ["copy", kids()]
    if r < 0.75:
        pool = ["a", "b", "x", "y"]
        return ["tagger", rng.sample(pool, rng.randint(0, 2)), rng.sample(pool, rng.randint(0, 2)), kids(),
                rng.choice(["list", "set", "iter", "mutated", "positional"])]
    return ["stamp", random_tree(rng, depth - 1)]


def random_event(rng):
    e = {"id": rng.choice([None, "a", "b"]),
         "st": rng.choice([None, "inprogress", "success", "fail", "uxsuccess", "xfail", "skip", "exists"])}
    r = rng.random()
    if r < 0.7:
        e["tags"] = rng.choice([None, [], ["x"], ["x", "y"], ["a"], ["b", "y"]])
        e["frozen"] = rng.random() < 0.4
    r = rng.random()
    if r < 0.3:
        e["ts"] = None
    elif r < 0.55:
        e["ts"] = rng.randint(-5, 5)
    elif r < 0.6:
        e["ts"] = 10 ** 9      # a supplied time far ahead of the local clock (a worker whose clock is off)
    if rng.random() < 0.4:
        e["rc"] = rng.choice([None, "0", "0/1", "1"])
    if rng.random() < 0.3:
        # (a file may be named "" - only None means "no file")
        e.update(fn=rng.choice(["f", "f", ""]), fb=rng.choice(["", "78"]), eof=rng.random() < 0.5,
                 mt=rng.choice([None, "text/plain"]))
    elif rng.random() < 0.1:
        e["eof_only"] = True
    if rng.random() < 0.25:
        e["runnable"] = False   # e.g. subtest reports
    if rng.random() < 0.15:
        e["npos"] = rng.randint(1, 10)  # leading fields passed positionally (used on pass-through trees)
    return e


def run(ctx):
    rng = ctx.rng
    upto2, depth3 = small_trees()
    n = 0
    for t in upto2 + depth3:
        if ctx.mine():
            n += 1
            ctx.execute("tree", {"tree": t, "history": STD_HISTORY})
    ctx.note_space("generator set: %d trees of depth <= 2 and %d of depth 3, each with the standard "
                   "11-step history" % (len(upto2), len(depth3)), n)
    ctx.notes["random_cases"] = True
    for i in range(ctx.scale(40000, 2000000)):
        if ctx.out_of_time():
            break
        if rng.random() < 0.5:
            t = rng.choice(upto2 + depth3)
        else:
            t = random_tree(rng, rng.randint(1, 3))
        hist = ["start"]
        for _ in range(rng.randint(1, 10)):
            r = rng.random()
            if r < 0.08:
                hist += ["stop", "start"]
            elif r < 0.12:
                # "every call": a run started inside a run (a result already started by its dispatcher, handed to
                # code that brackets itself), a stop with no start - the decorators keep no run state of their own
                hist.append(rng.choice(["start", "start", "stop"]))
            else:
                hist.append(random_event(rng))
        hist.append("stop")
        case = {"tree": t, "history": hist}
        if rng.random() < 0.15:
            case["reuse_set"] = True       # the caller fills ONE set object afresh for every event it sends
        ctx.execute("tree", case)
