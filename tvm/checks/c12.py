"""C12 - ThreadsafeForwardingResult: per-test atomicity under every interleaving."""

import datetime
import re
import threading
import time

from .. import recorders, sched as S

PROPERTY = "C12"
LEVEL = "exploration"
RULE = (
    "a case is (workload, schedule[, injected fault]).  Workload: 2..4 forwarder threads sharing one "
    "recording target and one semaphore, each reporting 1..3 tests (arbitrary outcomes, explicit "
    "time() before startTest and before the outcome, tags outside / inside tests and between "
    "outcome and stopTest) plus guarded run-level calls (startTestRun, stopTestRun, stop, done, "
    "shouldStop reads).  Schedules come from a deterministic baton scheduler whose yield points are "
    "every semaphore operation, every thread start/join and every call on the shared target "
    "(optionally every source line of real.py via sys.monitoring): DFS over all schedules up to a "
    "preemption bound, random and PCT walks beyond, plus a free-running stress mode with real "
    "preemption.  Faults: the target raises at the k-th call of method m by thread t (all (t, m) "
    "pairs).  An offline checker partitions the target's log into per-test blocks; the semaphore "
    "asserts its own bounds; a deadlock is a detected scheduler state.  Distinct = distinct "
    "interleaving (sequence of (task, yield label)) x fault; non-trivial = at least two threads "
    "reach the target."
)
REQUIRED = {
    "mon:runlevel.forwarded-once-each": 200,
    "mon:block.contiguous-and-complete": 500,
    "mon:outcome.exactly-once-in-thread-order": 500,
    "mon:block.own-start-time": 500,
    "mon:block.tags-of-that-test": 300,
    "mon:runlevel.never-inside-a-block": 100,
    "mon:semaphore.bounds-and-released": 500,
    "mon:no-deadlock": 500,
    "mon:fault.semaphore-released-others-complete": 100,
}
ASSUMPTIONS = [
    "under the baton scheduler code between two yield points runs atomically (bytecode-level "
    "preemption is only covered statistically by the free-running mode and, in the thorough tier, by "
    "line-level yield points)",
    "a watchdog firing in the free-running mode is inconclusive, never a violation",
]

UTC = datetime.timezone.utc
BASE = datetime.datetime(2024, 4, 4, tzinfo=UTC)
OUTCOMES = ["addSuccess", "addFailure", "addError", "addSkip", "addExpectedFailure", "addUnexpectedSuccess"]


class Marker(Exception):
    pass


class Target(recorders.ExtRecorder):
    """Shared target: logs reads of shouldStop too."""

    @property
    def shouldStop(self):
        self.log.add("shouldStop-read")
        return self.__dict__.get("_ss", False)

    @shouldStop.setter
    def shouldStop(self, v):
        self.__dict__["_ss"] = v


def make_workload(rng, n_threads, max_tests, runlevel=True):
    """-> list per thread of ops."""
    w = []
    uid = 0
    for t in range(n_threads):
        ops = []
        if runlevel and rng.random() < 0.4:
            ops.append(["startTestRun"])
        for j in range(rng.randint(1, max_tests)):
            uid += 1
            if rng.random() < 0.3:
                ops.append(["tags", rng.sample(["g%d" % t, "h"], rng.randint(1, 2)), []])
            test = {"id": "w%d.t%d" % (t, j), "t0": uid * 10, "t1": uid * 10 + 1,
                    "outcome": rng.choice(OUTCOMES)}
            if j and rng.random() < 0.3:
                test["t0"] = None   # no time() before startTest: the start time is the previous end time
            elif rng.random() < 0.2:
                test["t1"] = test["t0"] - 5   # explicit times may go backwards (TestResult.time allows it)
            r = rng.random()
            if r < 0.4:
                test["tags_in"] = [["l%d" % uid], []]
            elif r < 0.55:
                test["tags_in"] = [[], ["h"]]        # the test removes a run-level tag
            elif r < 0.7:
                test["tags_in"] = [["g%d" % t], ["l0"]]  # the test sets a tag the run level may have
            elif r < 0.78:
                test["tags_in"] = [[""], []]             # a tag that is the empty string is a tag
            elif r < 0.86:
                # tags are compared as given: white space is part of a tag (' h' is not the run-level 'h')
                test["tags_in"] = rng.choice([[[" h", "h "], []], [["l%d\n" % uid, "\u00a0"], []], [[], [" h"]],
                                              [["g%d " % t], ["h\t"]]])
            if "tags_in" in test and rng.random() < 0.3:
                # ... and then takes back what it just did (or re-adds what it just removed)
                test["tags_in2"] = [list(test["tags_in"][1]), list(test["tags_in"][0])]
            if test["t0"] is not None and rng.random() < 0.12:
                test["t1"] = test["t0"]            # ends at the very instant it started
            if rng.random() < 0.25:
                test["tags_after"] = [["z%d" % uid], []]
            if rng.random() < 0.3:
                test["skip_reason"] = ""           # an explicitly empty reason
            if j and runlevel and rng.random() < 0.15:
                ops.append(["startTestRun"])       # a new run on the same forwarder ...
                if rng.random() < 0.6:
                    test["no_times"] = True        # ... whose tests are timed by the clock
            if rng.random() < 0.06:
                for k in ("tags_in", "tags_in2", "tags_after"):
                    test.pop(k, None)
                test.update(no_start=True, outcome="addSkip")
            ops.append(["test", test])
            if runlevel and rng.random() < 0.2:
                ops.append([rng.choice(["shouldStop", "stop", "done"])])
        if runlevel and rng.random() < 0.4:
            ops.append(["stopTestRun"])
        w.append(ops)
    return w


def fixed_workload(n_threads, n_tests):
    w = []
    uid = 0
    for t in range(n_threads):
        ops = []
        for j in range(n_tests):
            uid += 1
            test = {"id": "w%d.t%d" % (t, j), "t0": uid * 10, "t1": uid * 10 + 1,
                    "outcome": OUTCOMES[(t + j) % 6], "tags_in": [["l%d" % uid], []]}
            ops.append(["test", test])
        if t == 0:
            ops.insert(1 if n_tests > 1 else 0, ["shouldStop"])
        w.append(ops)
    return w


def worker(fwd, ops, errors):
    import testtools
    from .. import histories as H
    for op in ops:
        try:
            k = op[0]
            if k == "startTestRun":
                fwd.startTestRun()
            elif k == "stopTestRun":
                fwd.stopTestRun()
            elif k == "stop":
                fwd.stop()
            elif k == "done":
                fwd.done()
            elif k == "shouldStop":
                fwd.shouldStop
            elif k == "tags":
                new, gone = set(op[1]), set(op[2])
                fwd.tags(new, gone)
                new.clear()    # the reporter goes on using its own sets
                gone.clear()
            elif k == "test":
                spec = op[1]
                test = testtools.PlaceHolder(spec["id"])
                if spec.get("no_start"):
                    # what unittest's runner of 3.12.1 does for a skipped stdlib test: addSkip() and stopTest() with
                    # no startTest() - the target still gets a complete block (startTest ... stopTest)
                    try:
                        fwd.addSkip(test, spec.get("skip_reason", "why"))
                    finally:
                        fwd.stopTest(test)
                    continue
                if spec["t0"] is not None and not spec.get("no_times"):
                    fwd.time(BASE + datetime.timedelta(seconds=spec["t0"]))
                fwd.startTest(test)
                if "tags_in" in spec:
                    new, gone = set(spec["tags_in"][0]), set(spec["tags_in"][1])
                    fwd.tags(new, gone)
                    new.add("scribble")
                    gone.clear()
                if "tags_in2" in spec:
                    # a second change inside the same test, competing with the first for a tag: the later one counts
                    fwd.tags(set(spec["tags_in2"][0]), set(spec["tags_in2"][1]))
                if not spec.get("no_times"):
                    fwd.time(BASE + datetime.timedelta(seconds=spec["t1"]))
                name = spec["outcome"]
                if FAKE_CLOCK[0]:
                    REPORTED_AT[spec["id"]] = TICKS[0][0]     # the forwarders' clock as the test reports its outcome
                try:
                    if name == "addSkip":
                        fwd.addSkip(test, spec.get("skip_reason", "why"))
                    elif name in ("addSuccess", "addUnexpectedSuccess"):
                        getattr(fwd, name)(test)
                    else:
                        getattr(fwd, name)(test, H.make_exc_info("x"))
                finally:
                    if "tags_after" in spec:
                        fwd.tags(set(spec["tags_after"][0]), set(spec["tags_after"][1]))
                    fwd.stopTest(test)
        except Marker:
            errors.append(("marker", op[0]))


def model_tags(ops):
    """test id -> tags the forwarder holds current at that test's outcome."""
    run, out = set(), {}
    for op in ops:
        if op[0] == "startTestRun":
            run = set()
        elif op[0] == "tags":
            run |= set(op[1])
            run -= set(op[2])
        elif op[0] == "test":
            cur = set(run)
            if "tags_in" in op[1]:
                cur |= set(op[1]["tags_in"][0])
                cur -= set(op[1]["tags_in"][1])
            if "tags_in2" in op[1]:
                cur |= set(op[1]["tags_in2"][0])
                cur -= set(op[1]["tags_in2"][1])
            out[op[1]["id"]] = frozenset(cur)
    return out


def model_times(ops):
    """test id -> (start, end) in seconds after BASE, None meaning the system clock.  The forwarder's clock: an
    explicit time stays until the next one; startTestRun goes back to the system clock."""
    clock, out = None, {}
    for op in ops:
        if op[0] == "startTestRun":
            clock = None
        elif op[0] == "test":
            sp = op[1]
            if sp.get("no_start"):
                out[sp["id"]] = ("absent", clock)      # never started: there is no start time to pass on
            elif not sp.get("no_times"):
                t_start = sp["t0"] if sp["t0"] is not None else clock
                clock = sp["t1"]
                out[sp["id"]] = (t_start, sp["t1"])
            else:
                out[sp["id"]] = (clock, clock)
    return out


FAKE_CLOCK = [False]
TICKS = [[0]]
EXACT_CLOCK = [True]
REPORTED_AT = {}
FAKE_BASE = datetime.datetime(1991, 1, 1, tzinfo=datetime.timezone.utc)


def time_is(got, w):
    if w == "absent":
        return got is None
    if w is None and FAKE_CLOCK[0]:
        # the forwarders are a subclass with a clock of their own (_now overridden): "the clock" is THAT one
        return got is not None and 0 <= (got - FAKE_BASE).total_seconds() < 86400
    if w is None:       # the system clock: nothing that was ever supplied
        return got is not None and abs((got - BASE).total_seconds()) > 10 ** 6
    return got == BASE + datetime.timedelta(seconds=w)


def execute(workload, chooser, fault=None, line_yield=False):
    """One controlled execution.  fault = (task name, method, occurrence)."""
    import testtools
    sch = S.Sched(chooser)
    counts = {}
    fault_at = []

    def hook(name, test):
        sch.yield_point("tgt." + name)
        if fault is not None:
            key = (sch.current_name(), name)
            counts[key] = counts.get(key, 0) + 1
            if (fault[0], fault[1]) == key and counts[key] == fault[2]:
                fault_at.append(len(log.events))
                raise Marker("injected at %s/%s" % key)
    log = recorders.Log(hook)
    # tag every event with the scheduler task
    orig_add = log.add

    def add(name, test=None, payload=None):
        ev = orig_add(name, test, payload)
        log.events[-1] = ev._replace(thread=sch.current_name())
        return log.events[-1]
    log.add = add
    target = Target(log)
    sem = S.CtlSemaphore(sch, 1)
    errors = []
    threads = []

    def main():
        ticks = [0]
        TICKS[0] = ticks
        REPORTED_AT.clear()

        class OwnClock(testtools.ThreadsafeForwardingResult):
            def _now(self):
                explicit = testtools.TestResult._now(self)
                if abs((explicit - BASE).total_seconds()) < 10 ** 6:
                    return explicit          # a time() the test supplied still counts
                ticks[0] += 1
                return FAKE_BASE + datetime.timedelta(seconds=ticks[0])
        cls = OwnClock if FAKE_CLOCK[0] else testtools.ThreadsafeForwardingResult
        for i, ops in enumerate(workload):
            fwd = cls(target, sem)
            t = S.CtlThread(sch, target=worker, args=(fwd, ops, errors))
            threads.append(t)
            t.start()
        for t in threads:
            t.join()
    mon = None
    if line_yield:
        mon = install_line_yields(sch)
    try:
        _, exc = sch.run(main)
    finally:
        if mon:
            mon()
    sch.fault_at = fault_at[0] if fault_at else None
    sch.target = target
    return sch, log, sem, errors, exc, threads


def install_line_yields(sch):
    """Yield at every source line of ThreadsafeForwardingResult (sys.monitoring, 3.12+)."""
    import sys
    import testtools.testresult.real as real
    mon = sys.monitoring
    tool = 3
    codes = set()
    for name, fn in vars(real.ThreadsafeForwardingResult).items():
        code = getattr(fn, "__code__", None) or getattr(getattr(fn, "fget", None), "__code__", None)
        if code is not None:
            codes.add(code)
    try:
        mon.use_tool_id(tool, "tvm-yield")
    except ValueError:
        return None

    def on_line(code, line):
        if code in codes and sch.cur is not None and not sch.aborting and \
                threading.current_thread() is getattr(sch.cur, "thread", threading.main_thread()):
            if sch.cur is sch.main and threading.current_thread() is not threading.main_thread():
                return
            sch.yield_point("line:%d" % line)
    mon.register_callback(tool, mon.events.LINE, on_line)
    for c in codes:
        mon.set_local_events(tool, c, mon.events.LINE)

    def undo():
        for c in codes:
            mon.set_local_events(tool, c, 0)
        mon.register_callback(tool, mon.events.LINE, None)
        mon.free_tool_id(tool)
    return undo


BLOCK = re.compile(r"^time startTest time (tags )*(add\w+) stopTest$")


def check_log(ctx, workload, sch, log, sem, errors, exc, threads, fault, detail):
    ctx.check(sch.deadlock is None, "no-deadlock", lambda: {"deadlock": sch.deadlock, **detail()})
    if sch.deadlock is not None:
        return
    ctx.check(exc is None and not sch.leaked_threads() and all(t.task.error is None for t in threads),
              "threads.finish-cleanly",
              lambda: {"exc": repr(exc), "leaked": sch.leaked_threads(),
                       "errors": [repr(t.task.error) for t in threads], **detail()})
    ctx.check(min(sem.history) >= 0 and max(sem.history) <= 1 and sem.n == 1, "semaphore.bounds-and-released",
              lambda: {"history": sem.history[-20:], "final": sem.n, **detail()})
    if fault is not None:
        ctx.check(sem.n == 1, "fault.semaphore-released-others-complete", lambda: {"final": sem.n, **detail()})
    events = log.events
    # ---- blocks -------------------------------------------------------------------------------
    faulted_thread = fault[0] if fault else None
    blocks = []
    i = 0
    open_block = None
    intruders = []
    for idx, e in enumerate(events):
        if e.name == "startTest":
            # the time() just before belongs to the block
            start = idx - 1 if idx and events[idx - 1].name == "time" and events[idx - 1].thread == e.thread else idx
            open_block = {"task": e.thread, "test": e.test, "start": start, "events": events[start:idx + 1]}
        elif open_block is not None:
            if (open_block["task"] == faulted_thread and sch.fault_at is not None and idx >= sch.fault_at
                    and e.thread != faulted_thread and not open_block.get("cut")):
                # the injected fault cut this block short; the semaphore has been released
                open_block["cut"] = True
                blocks.append(open_block)
                open_block = None
                continue
            if e.thread != open_block["task"]:
                intruders.append((e.thread, e.name, "inside block of", open_block["task"], open_block["test"]))
            open_block["events"].append(e)
            if e.name == "stopTest" and e.thread == open_block["task"]:
                blocks.append(open_block)
                open_block = None
    if open_block is not None:
        blocks.append(open_block)
    tname = lambda i: "T%d" % i  # noqa: E731
    ok_shape = not intruders
    for b in blocks:
        names = " ".join(x.name for x in b["events"] if x.thread == b["task"])
        if b["task"] == faulted_thread:
            continue  # a block cut short by the injected fault
        if not BLOCK.match(names):
            ok_shape = False
    ctx.check(ok_shape, "block.contiguous-and-complete",
              lambda: {"intruders": intruders[:5],
                       "blocks": [(b["task"], b["test"], [x.name for x in b["events"]]) for b in blocks][:8],
                       **detail()})
    # run-level calls reach the target, each one once
    if fault is None:
        issued = {k: sum(1 for ops in workload for op in ops if op[0] == k)
                  for k in ("startTestRun", "stopTestRun", "stop", "done")}
        seen = {k: sum(1 for e in events if e.name == k) for k in issued}
        ctx.check(seen == issued, "runlevel.forwarded-once-each",
                  lambda: {"issued": issued, "reached the target": seen, **detail()})
    # run-level calls never inside another task's block
    rl = [x for x in intruders if x[1] in ("startTestRun", "stopTestRun", "stop", "done", "shouldStop-read")]
    ctx.check(not rl, "runlevel.never-inside-a-block", lambda: {"intruders": rl[:5], **detail()})
    # ---- a target whose OUTCOME method raised still gets that test's stopTest (so that what the target
    #      scoped to the test - its tag context - is closed and cannot leak into other workers' tests) ----
    if fault is not None and sch.fault_at is not None and fault[1] in recorders.OUTCOMES:
        # (the raising call itself is not in the log: the test is the faulted thread's last startTest)
        started = [e for e in events[:sch.fault_at] if e.thread == fault[0] and e.name == "startTest"]
        if started:
            fe = started[-1]
            closed = any(e.name == "stopTest" and e.test == fe.test and e.thread == fe.thread
                         for e in events[sch.fault_at:])
            ctx.check(closed, "block.contiguous-and-complete",
                      lambda: {"the target raised in": fault[1], "test": fe.test, "stopTest delivered afterwards": closed,
                               **detail()})
    # ---- the faulted thread: tests it reports AFTER the fault are delivered with their own start time ----
    if faulted_thread is not None and sch.fault_at is not None:
        t = int(faulted_thread[1:])
        specs = [op[1] for op in workload[t] if op[0] == "test"]
        faulted_times = model_times(workload[t])
        for s in specs:
            t_start = faulted_times[s["id"]][0]
            if s.get("no_times") or s.get("no_start") or s["t0"] is None:
                continue        # its start depends on calls the fault may have cut short
            for b in blocks:
                if b["task"] != faulted_thread or b["test"] != s["id"] or b.get("cut") or b["start"] <= sch.fault_at:
                    continue
                names = " ".join(x.name for x in b["events"] if x.thread == b["task"])
                if not BLOCK.match(names) or t_start is None:
                    continue
                times = [x.payload["time"] for x in b["events"] if x.name == "time"]
                ctx.check(times[:1] == [BASE + datetime.timedelta(seconds=t_start)], "block.own-start-time",
                          lambda: {"test": s["id"], "after a fault in the same thread": True,
                                   "times": [repr(x) for x in times], "want start": t_start, **detail()})
    # ---- exactly once, per-thread order, own times, own tags ---------------------------------------
    for t, ops in enumerate(workload):
        if tname(t) == faulted_thread:
            continue
        want = [op[1] for op in ops if op[0] == "test"]
        mine = [b for b in blocks if b["task"] == tname(t)]
        outs = [[x.name for x in b["events"] if x.name in recorders.OUTCOMES] for b in mine]
        ctx.check([b["test"] for b in mine] == [s["id"] for s in want]
                  and outs == [[s["outcome"]] for s in want],
                  "outcome.exactly-once-in-thread-order",
                  lambda: {"thread": t, "got": [(b["test"], o) for b, o in zip(mine, outs)],
                           "want": [(s["id"], s["outcome"]) for s in want], **detail()})
        tags = model_tags(ops)
        expect_times = model_times(ops)
        for b, s in zip(mine, want):
            times = [x.payload["time"] for x in b["events"] if x.name == "time"]
            want_times = expect_times[s["id"]]
            ctx.check(len(times) >= 2 and time_is(times[0], want_times[0]) and time_is(times[1], want_times[1]),
                      "block.own-start-time", lambda: {"test": s["id"], "times": [repr(x) for x in times],
                                                       "want (seconds after BASE, None = system clock)": want_times,
                                                       **detail()})
            if FAKE_CLOCK[0] and EXACT_CLOCK[0] and len(times) >= 2 and times[1] is not None and s["id"] in REPORTED_AT \
                    and 0 <= (times[1] - FAKE_BASE).total_seconds() < 86400:
                # the end time is the clock reading when the test REPORTED (the forwarder reads its clock first thing),
                # not when the target became free for its block
                want_end = FAKE_BASE + datetime.timedelta(seconds=REPORTED_AT[s["id"]] + 1)
                ctx.check(times[1] == want_end, "block.own-start-time",
                          lambda: {"test": s["id"], "end time forwarded": repr(times[1]),
                                   "the forwarder's clock when the test reported": repr(want_end), **detail()})
            out = [x for x in b["events"] if x.name in recorders.OUTCOMES]
            if out:
                ctx.check(out[0].payload["tags"] == tags[s["id"]], "block.tags-of-that-test",
                          lambda: {"test": s["id"], "observed": out[0].payload["tags"], "want": tags[s["id"]],
                                   **detail()})


def x_schedule(ctx, case):
    """Replay one schedule prefix (used for replays and by the explorers)."""
    workload = case["workload"]
    fault = tuple(case["fault"]) if case.get("fault") else None
    if case.get("mode") == "random":
        import random
        chooser = S.random_chooser(random.Random(case["rseed"]), case.get("p", 0.5))
    elif case.get("mode") == "pct":
        import random
        chooser = S.pct_chooser(random.Random(case["rseed"]), depth=case.get("depth", 2))
    else:
        chooser = S.replay_chooser(case.get("prefix", []))
    FAKE_CLOCK[0] = bool(case.get("own_clock"))
    # (with yield points at every line another forwarder may read the shared logical clock between a test's report
    # and its forwarder's own reading: "the reading when the test reported" is exact only without them)
    EXACT_CLOCK[0] = not case.get("lines")
    sch, log, sem, errors, exc, threads = execute(workload, chooser, fault, case.get("lines", False))
    detail = lambda: {"schedule": [k for n, k, c in sch.choices][:80], "fault": fault,  # noqa: E731
                      "trace-tail": sch.trace[-12:]}
    check_log(ctx, workload, sch, log, sem, errors, exc, threads, fault, detail)
    late = sch.target.aliasing_problems()
    ctx.check(not late, "block.tags-of-that-test",
              lambda: {"tag sets handed to the target that changed afterwards (was, is)": late[:4], **detail()})
    if not hasattr(ctx, "interleavings"):
        ctx.interleavings = set()
    ctx.interleavings.add(hash(tuple(sch.trace)))
    x_schedule.last = sch
    return True


def x_free(ctx, case):
    """Free-running stress: real preemption, tiny switch interval, sleeps at the target."""
    import random
    import sys
    import testtools
    workload = case["workload"]
    rng = random.Random(case["rseed"])
    lock_free_log = recorders.Log()
    target = recorders.ExtRecorder(lock_free_log)

    def hook(name, test):
        if rng.random() < 0.3:
            time.sleep(0)
        if rng.random() < 0.05:
            time.sleep(0.0002)
    lock_free_log.hook = hook
    sem = threading.Semaphore(1)
    old = sys.getswitchinterval()
    sys.setswitchinterval(1e-6)
    errors = []
    try:
        ths = [threading.Thread(target=worker, args=(testtools.ThreadsafeForwardingResult(target, sem), ops, errors),
                                daemon=True)
               for ops in workload]
        for t in ths:
            t.start()
        deadline = time.monotonic() + 20
        for t in ths:
            t.join(max(0.1, deadline - time.monotonic()))
        if any(t.is_alive() for t in ths):
            ctx.inconclusive.append("free-running watchdog fired (20 s)")
            return False
    finally:
        sys.setswitchinterval(old)
    # per-test blocks by OS thread
    ev = lock_free_log.events
    cur = None
    bad = []
    for e in ev:
        if e.name == "startTest":
            cur = e.thread
        elif cur is not None:
            if e.thread != cur:
                bad.append((e.name, e.test))
            if e.name == "stopTest":
                cur = None
    outs = sorted(e.test for e in ev if e.name in recorders.OUTCOMES)
    want = sorted(op[1]["id"] for ops in workload for op in ops if op[0] == "test")
    ctx.check(not bad, "block.contiguous-and-complete", lambda: {"free-running": True, "intruders": bad[:5]})
    ctx.check(outs == want, "outcome.exactly-once-in-thread-order", lambda: {"free-running": True, "got": outs, "want": want})
    got = sem.acquire(blocking=False)
    ctx.check(got, "semaphore.bounds-and-released", lambda: {"free-running": True})
    return True


def x_cts(ctx, case):
    """The forwarders as ConcurrentTestSuite wires them up - one per worker, all on ONE semaphore - under the
    controlled scheduler (the machinery and the monitors are C13's): one test at a time at the caller's result."""
    from . import c13
    return c13.x_schedule(ctx, case)


SUBCHECKS = {"schedule": x_schedule, "free": x_free, "cts": x_cts}
NO_SHARDS = False


def run(ctx):
    rng = ctx.rng
    ctx.interleavings = set()
    # ---- DFS, preemption-bounded, on fixed small shapes ----------------------------------------
    shapes = [(2, 2, 2), (3, 1, 1)] if ctx.quick else [(2, 2, 3), (3, 1, 2), (2, 3, 2), (3, 2, 2), (4, 1, 1)]
    total_states = total_trans = 0
    for n_threads, n_tests, bound in shapes:
        if not ctx.mine():
            continue
        wl = fixed_workload(n_threads, n_tests)

        def run_once(prefix, wl=wl):
            ctx.execute("schedule", {"workload": wl, "prefix": prefix}, sample=(len(prefix) == 3))
            return x_schedule.last
        runs, complete = S.explore_dfs(run_once, bound, max_runs=60000 if ctx.quick else 400000,
                                       should_stop=ctx.out_of_time)
        total_states += runs
        ctx.note_space("all schedules with <= %d preemptions, %d threads x %d tests" % (bound, n_threads, n_tests),
                       runs, complete)
    # ---- every single-fault placement for 2 x 2 ---------------------------------------------------
    wl = fixed_workload(2, 2)
    n = 0
    methods = ["time", "startTest", "tags", "addSuccess", "addFailure", "addError", "addSkip",
               "addExpectedFailure", "addUnexpectedSuccess", "stopTest", "shouldStop-read"]
    for task in ("T0", "T1"):
        for m in methods:
            for occ in (1, 2, 3):
                for k in range(3 if ctx.quick else 12):
                    if not ctx.mine():
                        continue
                    n += 1
                    ctx.execute("schedule", {"workload": wl, "mode": "random", "rseed": rng.randrange(10 ** 9),
                                             "fault": [task, m, occ]}, sample=(n % 97 == 0))
    ctx.note_space("single fault: target raises at occurrence 1..3 of each of 11 methods by each of 2 threads, "
                   "several random schedules each", n)
    for workers in ([{"tests": 2}, {"tests": 2}], [{"tests": 1}, {"tests": 2}, {"tests": 1}],
                    # a worker that lets a non-Exception escape (sys.exit() in a test), one whose runner breaks: the
                    # forwarders' semaphore is free again and run() returns
                    [{"tests": 2, "raise_at": 1, "raise_base": True}, {"tests": 2}],
                    [{"tests": 2, "raise_at": 1}, {"tests": 1}, {"tests": 2, "raise_at": 0, "raise_base": True}]):
        for rep in range(ctx.scale(6, 200)):
            if ctx.mine():
                ctx.execute("cts", {"kind": "cts", "workers": workers, "mode": rng.choice(["random", "pct"]),
                                    "rseed": rng.randrange(10 ** 9), "p": rng.choice([0.3, 0.5, 0.7])})
    # ---- random / PCT schedules of larger shapes with run-level calls, tags, faults ------------------
    ctx.notes["random_cases"] = True
    for i in range(ctx.scale(2500, 200000)):
        if ctx.out_of_time():
            break
        wl = make_workload(rng, rng.randint(2, 4), 3)
        case = {"workload": wl, "mode": rng.choice(["random", "random", "pct"]), "rseed": rng.randrange(10 ** 9),
                "p": rng.choice([0.2, 0.5, 0.9]), "depth": rng.randint(1, 3)}
        if rng.random() < 0.25:
            case["fault"] = ["T%d" % rng.randrange(len(wl)), rng.choice(methods + ["startTestRun", "stopTestRun",
                                                                                  "stop", "done"]), rng.randint(1, 3)]
        if not ctx.quick and rng.random() < 0.1:
            case["lines"] = True
        if rng.random() < 0.3:
            case["own_clock"] = True       # forwarders of a subclass that overrides the _now() hook
        ctx.execute("schedule", case)
    # ---- free-running stress ---------------------------------------------------------------------------
    for i in range(ctx.scale(20, 600)):
        if ctx.out_of_time():
            break
        ctx.execute("free", {"workload": make_workload(rng, 4, 3, runlevel=False), "rseed": rng.randrange(10 ** 9)},
                    sample=False)
    ctx.notes["distinct_interleavings"] = len(ctx.interleavings)
    ctx.notes["states"] = ctx.evaluations
