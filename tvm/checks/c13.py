"""C13 - concurrent suites run every test once, deliver every event, and terminate."""

import datetime
import re
import unittest

from .. import recorders, sched as S

PROPERTY = "C13"
LEVEL = "exploration"
RULE = (
    "a case is (suite kind, worker scripts, schedule[, abort]).  ConcurrentTestSuite and "
    "ConcurrentStreamTestSuite run unmodified on a deterministic baton scheduler: "
    "testtools.testsuite.threading / Queue are rebound to controlled primitives for one execution "
    "and testtools.ThreadsafeForwardingResult / ExtendedToStreamDecorator to recording subclasses, so "
    "per-worker result objects and their stop flags are observable.  Workers are scripted suites "
    "(0..3 uniquely numbered tests, optional direct stream events, optionally raising from run(), "
    "honouring shouldStop).  Schedules: DFS up to a preemption bound on small shapes, random / PCT "
    "walks on 1..4 workers.  Aborts: the caller's result raising at event k, make_tests raising "
    "after k yields, wrap_result raising, KeyboardInterrupt injected into run()'s own thread at its "
    "n-th yield point (queue.get, thread start/join).  Distinct = distinct interleaving x abort; "
    "non-trivial = at least two workers with tests."
)
REQUIRED = {
    "mon:worker.run-once-on-own-thread": 500,
    "mon:run.returns-after-all-workers": 500,
    "mon:events.exactly-once-in-worker-order": 500,
    "mon:stream.route-code-and-timestamp": 200,
    "mon:cts.one-test-at-a-time": 200,
    "mon:events.times-and-details-as-emitted": 100,
    "mon:broken-runner.reported": 50,
    "mon:abort.exception-propagates": 100,
    "mon:abort.started-workers-told-to-stop": 100,
    "mon:no-deadlock": 500,
}
ASSUMPTIONS = [
    "a worker whose run() lets a non-Exception BaseException escape (sys.exit() in a test) need not be "
    "reported as a broken runner (the suites' contract is `except Exception`); its earlier events, the "
    "other workers and the termination of run() are still demanded",
    "make_tests never yields the same object twice (the suites key their thread table by it)",
    "under the baton scheduler code between two yield points runs atomically",
]


class Marker(Exception):
    pass


import queue as _queue_mod


class MarkerEmpty(Marker, _queue_mod.Empty):
    """What a caller's result lets out when ITS OWN queue is exhausted (a result drawing tokens with get_nowait()): an
    exception of a class the suites use internally is still the caller's exception."""


class FalsyRunnerError(Exception):
    """An exception object that is falsy (an aggregate error raised with an empty list, say)."""

    def __len__(self):
        return 0


class WorkerExit(BaseException):
    """What a worker's run() lets escape when a test calls sys.exit() / is interrupted: not an Exception."""


class Worker:
    def __init__(self, i, spec, runlog, sch, kind):
        self.i, self.spec, self.runlog, self.sch, self.kind = i, spec, runlog, sch, kind

    def run(self, result):
        self.runlog.append((self.i, self.sch.current_name()))
        try:
            self._run(result)
        finally:
            self.runlog.append((self.i, "finished", None, None))

    def _run(self, result):
        import testtools
        n = self.spec["tests"]
        for j in range(n):
            if getattr(result, "shouldStop", False):
                self.runlog.append((self.i, "stopped-before", j))
                return
            if self.spec.get("raise_at") == j:
                self._about_to_raise(result)
                if self.spec.get("falsy"):
                    raise FalsyRunnerError("worker %d broke" % self.i)
                raise RuntimeError("worker %d broke" % self.i)
            if self.kind == "stream" and self.spec.get("direct") and j % 2:
                # a worker forwarding complete event dicts passes every field, timestamp=None included
                result.status(test_id="w%d.t%d" % (self.i, j), test_status="inprogress", timestamp=None)
                result.status(test_id="w%d.t%d" % (self.i, j), test_status="success", test_tags=None,
                              runnable=True, file_name=None, file_bytes=None, eof=False, mime_type=None,
                              route_code=None, timestamp=None)
            elif self.spec.get("stamped"):
                # recorded results replayed: the test carries its own start and end time (the end may lie BEFORE the
                # start - "time is permitted to go backwards") and, when it errs, a text detail that arrives in
                # several chunks with a multi-byte character across a chunk boundary
                t0, t1 = stamps(self.i, j)
                outcome = ["addSuccess", "addError", "addSkip"][(self.i + j) % 3]
                details = None
                if outcome == "addError":
                    from testtools.content import Content
                    from testtools.content_type import UTF8_TEXT
                    details = {"log": Content(UTF8_TEXT, lambda: list(SPLIT_LOG))}
                testtools.PlaceHolder("w%d.t%d" % (self.i, j), outcome=outcome, details=details,
                                      timestamps=(t0, t1)).run(result)
            elif self.spec.get("tag_churn"):
                # a test that tags itself, reports, and then changes its tags again before it is stopped (a fixture
                # cleaning up): the event it emitted for its outcome carries the tags current THEN
                t = testtools.PlaceHolder("w%d.t%d" % (self.i, j))
                result.startTest(t)
                result.tags({"own%d" % j}, set())
                outcome = ["addSuccess", "addError", "addSkip"][(self.i + j) % 3]
                if outcome == "addSuccess":
                    result.addSuccess(t)
                elif outcome == "addSkip":
                    result.addSkip(t, "why")
                else:
                    result.addError(t, details={})
                result.tags({"late"}, {"own%d" % j})
                result.stopTest(t)
            else:
                testtools.PlaceHolder("w%d.t%d" % (self.i, j),
                                      outcome=["addSuccess", "addError", "addSkip"][(self.i + j) % 3]).run(result)
        if self.spec.get("raise_at") == n:
            if getattr(result, "shouldStop", False):
                self.runlog.append((self.i, "stopped-before", n))
                return
            self._about_to_raise(result)
            if self.spec.get("falsy"):
                raise FalsyRunnerError("worker %d broke at the end" % self.i)
            raise RuntimeError("worker %d broke at the end" % self.i)

    def _about_to_raise(self, result):
        if self.spec.get("raise_base"):
            # not an Exception: whether it is reported is not specified, but the suite's run() must still
            # return once every worker is done
            raise WorkerExit("worker %d exits" % self.i)
        if self.spec.get("stop_first"):
            result.stop()      # e.g. the worker's own fail-fast logic, just before its runner breaks
        self.runlog.append((self.i, "raised", None, None, None))

    def countTestCases(self):
        # like a real suite: a partition may well hold no tests at all - its run() is called all the same
        return self.spec["tests"]

    def __hash__(self):
        return id(self)


STAMP_BASE = datetime.datetime(2001, 2, 3, 4, 5, 6, tzinfo=datetime.timezone.utc)
SPLIT_LOG = [b"caf\xc3", b"\xa9 \xe2\x98", b"\x83 end\n"]      # 'café ☃ end' cut inside both characters


def stamps(i, j):
    t0 = STAMP_BASE + datetime.timedelta(seconds=i * 100 + j * 10)
    return t0, t0 + datetime.timedelta(milliseconds=[1000, 0, -1000, -250][(i + j) % 4])


def make_case_worker(i, spec, runlog, sch, kind):
    """A sub-suite that is a testtools.TestCase instance: several of them share class and test method and differ
    only in their attributes (parametrised clones) - they are different objects and different workers."""
    import testtools
    global _ParamCase
    if _ParamCase is None:
        class ParamCase(testtools.TestCase):      # ONE class: the instances differ in their attributes only
            def __init__(self, worker):
                super().__init__("test_param")
                self.param = worker.i
                self._worker = worker

            def test_param(self):
                pass

            def run(self, result=None):
                return self._worker.run(result)

            def countTestCases(self):
                return self._worker.countTestCases()
        _ParamCase = ParamCase
    return _ParamCase(Worker(i, spec, runlog, sch, kind))


_ParamCase = None


def snap_finished(sch, runlog):
    """Workers that had already finished their run() when run() of the suite was aborted."""
    return {"finished": sorted(r[0] for r in runlog if len(r) == 4), "runlog_len": len(runlog)}


def execute(case, chooser):
    import testtools
    import testtools.testsuite as ts
    kind = case["kind"]
    workers_spec = case["workers"]
    abort = case.get("abort")
    sch = S.Sched(chooser)
    if abort and abort[0] == "interrupt":
        sch.interrupt = {"task": "main", "at": abort[1], "exc": KeyboardInterrupt("injected"),
                         "on_fire": lambda: setattr(sch, "abort_runlog_len", len(runlog))}
    shim = S.ThreadingShim(sch)
    runlog = []
    created = []   # per-worker result objects in creation order
    counts = {"events": 0}

    def hook(name, test):
        sch.yield_point("res." + name)
        if name in ("status",) or name in recorders.OUTCOMES or name in ("startTest", "stopTest"):
            counts["events"] += 1
            if case.get("cts_fault") and name in recorders.OUTCOMES:
                counts["outcomes"] = counts.get("outcomes", 0) + 1
                if counts["outcomes"] == case["cts_fault"]:
                    raise Marker("caller's result raises at outcome %d" % case["cts_fault"])
            if abort and abort[0] == "result" and counts["events"] == abort[1]:
                sch.abort_snapshot = snap_finished(sch, runlog)
                raise (MarkerEmpty if case.get("abort_exc") == "Empty" else Marker)("caller's result raises at event %d" % abort[1])
    log = recorders.Log(hook)
    orig_add = log.add

    def add(name, test=None, payload=None):
        ev = orig_add(name, test, payload)
        log.events[-1] = ev._replace(thread=sch.current_name())
        return log.events[-1]
    log.add = add

    class RecTFR(testtools.ThreadsafeForwardingResult):
        def __init__(self, *a, **kw):
            super().__init__(*a, **kw)
            self.stop_calls = 0
            created.append(self)

        def stop(self):
            if sch.current_name() == "main":
                self.stop_calls += 1
            return super().stop()

    class RecE2S(testtools.ExtendedToStreamDecorator):
        def __init__(self, *a, **kw):
            super().__init__(*a, **kw)
            self.stop_calls = 0
            created.append(self)

        def stop(self):
            if sch.current_name() == "main":
                self.stop_calls += 1
            return super().stop()

    gen = [0]

    def make_workers():
        # a fresh set of sub-suites per make_tests() call; the second generation is numbered 10, 11, ..
        mk = make_case_worker if case.get("case_workers") else Worker
        return [mk(i + 10 * gen[0], spec, runlog, sch, kind) for i, spec in enumerate(workers_spec)]
    yielded = []
    route_of = (lambda i: case["same_route"]) if "same_route" in case else (lambda i: "r%d" % i)

    def make_tests_cts(suite):
        for i, w in enumerate(make_workers()):
            if abort and abort[0] == "make_tests" and i == abort[1] and not gen[0]:
                sch.abort_snapshot = snap_finished(sch, runlog)
                raise Marker("make_tests fails after %d" % i)
            yielded.append(i)
            yield w

    def make_tests_stream():
        for i, w in enumerate(make_workers()):
            if abort and abort[0] == "make_tests" and i == abort[1] and not gen[0]:
                sch.abort_snapshot = snap_finished(sch, runlog)
                raise Marker("make_tests fails after %d" % i)
            yielded.append(i)
            yield (w, route_of(i))

    saved = (ts.threading, ts.Queue, testtools.ThreadsafeForwardingResult, testtools.ExtendedToStreamDecorator)
    ts.threading = shim
    ts.Queue = lambda: S.CtlQueue(sch)
    testtools.ThreadsafeForwardingResult = RecTFR
    testtools.ExtendedToStreamDecorator = RecE2S
    try:
        if abort and abort[0] == "make_tests_call":
            # make_tests is an ordinary function that fails before returning anything (first run only)
            gen_cts, gen_stream = make_tests_cts, make_tests_stream

            def make_tests_cts(suite):      # noqa: F811
                if not gen[0]:
                    sch.abort_snapshot = snap_finished(sch, runlog)
                    raise Marker("make_tests() itself fails")
                return gen_cts(suite)

            def make_tests_stream():        # noqa: F811
                if not gen[0]:
                    sch.abort_snapshot = snap_finished(sch, runlog)
                    raise Marker("make_tests() itself fails")
                return gen_stream()
        if kind == "cts":
            target = recorders.ExtRecorder(log)
            if case.get("target") == "nostop":
                class NoStop(recorders.ExtRecorder):
                    """A caller's result that has a shouldStop flag but no stop() method."""

                    @property
                    def stop(self):
                        raise AttributeError("stop")
                target = NoStop(log)
            wrap = None
            if abort and abort[0] == "wrap":
                def wrap(result, n):
                    if n == abort[1] and not gen[0]:
                        sch.abort_snapshot = snap_finished(sch, runlog)
                        raise Marker("wrap_result fails for %d" % n)
                    return result
            if case.get("wrap_own_stop"):
                # the caller's wrap_result hook hands every worker a result that keeps its OWN shouldStop (say, to stop
                # one worker without stopping the others): telling a worker to stop means telling THAT object
                inner_wrap = wrap

                class OwnStop(testtools.TestResultDecorator):
                    def __init__(self, decorated):
                        super().__init__(decorated)
                        self._own_stop = False
                        self.stop_calls = 0

                    shouldStop = property(lambda self: self._own_stop)

                    def stop(self):
                        if sch.current_name() == "main":
                            self.stop_calls += 1
                        self._own_stop = True

                def wrap(result, n):   # noqa: F811
                    r = inner_wrap(result, n) if inner_wrap else result
                    w = OwnStop(r)
                    if not gen[0]:
                        created[created.index(result)] = w    # the monitor reads what the worker was given
                    return w
            suite = testtools.ConcurrentTestSuite(unittest.TestSuite(), make_tests_cts, wrap_result=wrap)
        else:
            target = recorders.StreamRecorder(log, "caller")
            suite = testtools.ConcurrentStreamTestSuite(make_tests_stream)
        if case.get("rerun"):
            # the SAME suite object run a second time (into a second result) after the first run
            log2 = recorders.Log(lambda name, test: sch.yield_point("res2." + name))
            orig_add2 = log2.add

            def add2(name, test=None, payload=None):
                ev = orig_add2(name, test, payload)
                log2.events[-1] = ev._replace(thread=sch.current_name())
                return log2.events[-1]
            log2.add = add2
            target2 = (recorders.ExtRecorder(log2) if kind == "cts" else recorders.StreamRecorder(log2, "caller2"))
            second = {"log": log2, "exc": None, "first_exc": None}
            sch.second = second

            def main():
                try:
                    suite.run(target)
                except BaseException as e:  # noqa
                    second["first_exc"] = e
                gen[0] = 1
                sch.interrupt = None
                second["threads_before"] = len(shim.threads)
                try:
                    suite.run(target2)
                except BaseException as e:  # noqa
                    second["exc"] = e
            _, exc = sch.run(main)
            exc = second["first_exc"]
        else:
            _, exc = sch.run(lambda: suite.run(target))
    finally:
        (ts.threading, ts.Queue, testtools.ThreadsafeForwardingResult,
         testtools.ExtendedToStreamDecorator) = saved
    return sch, log, runlog, created, exc, yielded, shim, target


def check(ctx, case, sch, log, runlog, created, exc, yielded, shim, target, detail):
    kind, specs, abort = case["kind"], case["workers"], case.get("abort")
    ctx.check(sch.deadlock is None, "no-deadlock", lambda: {"deadlock": sch.deadlock, **detail()})
    if sch.deadlock is not None:
        return
    ctx.check(not sch.leaked_threads(), "threads.terminate", lambda: {"leaked": sch.leaked_threads(), **detail()})
    runs = [r for r in runlog if len(r) == 2]
    started = [t for t in shim.threads if t.task.started]
    raised = {r[0] for r in runlog if len(r) == 5}
    if case.get("rerun"):
        second = sch.second
        ctx.check(second["exc"] is None, "rerun.second-run-unaffected-by-the-first",
                  lambda: {"second run raised": repr(second["exc"]), "first run": repr(exc), **detail()})
        if kind == "cts":
            got = [e.test for e in second["log"].events if e.name in recorders.OUTCOMES]
        else:
            got = [p.payload["test_id"] for p in second["log"].of("status") if p.payload["test_status"] not in (None, "inprogress")]
        want = []
        for i, spec in enumerate(specs):
            for j in range(spec["tests"]):
                if spec.get("raise_at") == j:
                    break
                want.append("w%d.t%d" % (i + 10, j))
        stale = [t for t in got if not (t.startswith("w1") or t.startswith("broken-runner"))]
        mine = sorted(t for t in got if t.startswith("w1"))
        complete = mine == sorted(want)
        if kind == "cts" and any(sp.get("stop_first") for sp in specs):
            # a worker's stop() reaches the shared result: the others may legitimately finish early
            complete = len(set(mine)) == len(mine) and set(mine) <= set(want)
        ctx.check(not stale and complete, "rerun.second-run-unaffected-by-the-first",
                  lambda: {"stale events from the first run": stale, "got": mine, "want": sorted(want), **detail()})
        return
    if abort is None:
        ctx.check(exc is None, "run.no-exception", lambda: {"exc": repr(exc), **detail()})
        ctx.check(sorted(i for i, _ in runs) == list(range(len(specs))) and
                  len({task for _, task in runs}) == len(runs) and all(task != "main" for _, task in runs),
                  "worker.run-once-on-own-thread", lambda: {"runs": runs, **detail()})
        ctx.check(not sch.alive_at_return, "run.returns-after-all-workers",
                  lambda: {"alive": sch.alive_at_return, **detail()})
    else:
        ctx.check(exc is not None and (isinstance(exc, Marker) or isinstance(exc, KeyboardInterrupt)),
                  "abort.exception-propagates", lambda: {"exc": repr(exc), "abort": abort, **detail()})
        # every worker whose thread had been started is told to stop
        told = []
        snap = getattr(sch, "abort_snapshot", None)
        if snap is None or "finished" not in snap:
            # interrupt injected by the scheduler: reconstruct from the run log at that moment
            snap = {"finished": sorted(r[0] for r in runlog[:getattr(sch, "abort_runlog_len", len(runlog))]
                                       if len(r) == 4)}
        for wi, (t, res) in enumerate(zip(shim.threads, created)):
            if not t.task.started or wi in snap["finished"]:
                continue  # never started, or its run() had already finished when run() was aborted
            if kind == "cts":
                # told, and in a way the worker can see: its result's shouldStop is true afterwards
                told.append((t.name, res.stop_calls >= 1 and bool(res.shouldStop)))
            else:
                told.append((t.name, res.stop_calls >= 1 and res.shouldStop is True))
        ctx.check(all(ok for _, ok in told), "abort.started-workers-told-to-stop",
                  lambda: {"told": told, "abort": abort, "finished before abort": snap, **detail()})
        if kind == "cts" and told and not case.get("wrap_own_stop") and case.get("target") != "nostop":
            # ... through the caller's result's own stop() (a result may override it - that is how it learns)
            ctx.check(any(e.name == "stop" for e in log.events), "abort.started-workers-told-to-stop",
                      lambda: {"the caller's result never had stop() called": True, "told": told, **detail()})
        ctx.check(len({task for _, task in runs}) == len(runs), "worker.run-once-on-own-thread",
                  lambda: {"runs": runs, **detail()})
        return
    # ---- delivery (abort-free runs) ------------------------------------------------------------
    if kind == "cts":
        ev = [e for e in log.events if e.name in ("startTest", "stopTest") or e.name in recorders.OUTCOMES]
        open_test, interleaved = None, []
        for e in ev:
            if e.name == "startTest":
                if open_test is not None:
                    interleaved.append((open_test, e.test))
                open_test = e.test
            elif e.name == "stopTest":
                open_test = None
            elif open_test != e.test:
                interleaved.append((open_test, e.test))
        ctx.check(not interleaved, "cts.one-test-at-a-time", lambda: {"interleaved": interleaved[:5], **detail()})
        for i, spec in enumerate(specs):
            if case.get("cts_fault"):
                break  # which outcomes arrive depends on where the caller's result raised
            want = []
            r = spec.get("raise_at")
            for j in range(spec["tests"]):
                if r == j:
                    break
                want.append("w%d.t%d" % (i, j))
            mine = [e.test for e in ev if e.name in recorders.OUTCOMES and e.test.startswith("w%d." % i)]
            if any(sp.get("stop_first") for sp in specs):
                # a stop() reaches the shared result: any worker may legitimately finish early
                ok = mine == want[:len(mine)] and (len(mine) == len(want) or
                                                   any(r[0] == i and r[1] == "stopped-before" for r in runlog if len(r) == 3))
            else:
                ok = mine == want
            ctx.check(ok, "events.exactly-once-in-worker-order",
                      lambda: {"worker": i, "got": mine, "want": want, **detail()})
        for i, spec in enumerate(specs):
            if not spec.get("stamped") or case.get("cts_fault"):
                continue
            got, want = [], []
            evs = log.events
            for k, e in enumerate(evs):
                if e.test and str(e.test).startswith("w%d." % i) and (e.name == "startTest" or e.name in recorders.OUTCOMES):
                    prev = evs[k - 1] if k else None
                    got.append((e.test, e.name == "startTest", prev.payload["time"] if prev is not None and prev.name == "time" else "no time() before it"))
                    want.append((e.test, e.name == "startTest", stamps(i, int(e.test.split(".t")[1]))[0 if e.name == "startTest" else 1]))
                    if e.name == "addError":
                        log_bytes = ((e.payload or {}).get("details") or {}).get("log")
                        got.append(log_bytes and log_bytes[1])
                        want.append(b"".join(SPLIT_LOG))
            ctx.check(got == want, "events.times-and-details-as-emitted",
                      lambda: {"worker": i, "reached the caller's result": got, "emitted": want, **detail()})
        if case.get("cts_fault"):
            # a worker whose reporting blew up is reported as a broken runner, and the result still
            # sees one test at a time (checked above)
            ctx.check(any(e.name == "addError" and e.test == "broken-runner" for e in ev) or
                      sum(s["tests"] for s in specs) < case["cts_fault"], "broken-runner.reported",
                      lambda: {"cts_fault": case["cts_fault"], "events": [(e.name, e.test) for e in ev][-8:], **detail()})
            return
        broken = [e for e in ev if e.name == "addError" and e.test == "broken-runner"]
        # each broken-runner report carries the traceback of ITS worker's error
        owners = sorted(int(m) for e in broken
                        for m in re.findall(r"worker (\d+) broke", (((e.payload or {}).get("details") or {}).get("traceback") or ("", b""))[1].decode("utf8", "replace"))[:1])
        if not case.get("cts_fault"):
            ctx.check(owners == sorted(raised), "broken-runner.reported",
                      lambda: {"tracebacks name the errors of workers": owners, "workers that broke": sorted(raised), **detail()})
        n_broken = len(raised)      # workers whose run() did raise (one stopped earlier never gets there)
        if n_broken or any(sp.get("raise_at") is not None for sp in specs):
            ctx.check(len(broken) == n_broken, "broken-runner.reported",
                      lambda: {"reported": len(broken), "want": n_broken, **detail()})
    else:
        ev = [e.payload for e in log.of("status")]
        codes = [case["same_route"]] if "same_route" in case else ["r%d" % i for i in range(len(specs))]
        ctx.check(all(p["timestamp"] is not None for p in ev) and
                  all((p["route_code"] is None and codes == [None]) or
                      (p["route_code"] is not None and p["route_code"].split("/")[0] in codes) for p in ev),
                  "stream.route-code-and-timestamp",
                  lambda: {"bad": [(p["test_id"], p["route_code"], p["timestamp"]) for p in ev
                                   if p["timestamp"] is None or p["route_code"] is None][:5], **detail()})
        for i, spec in enumerate(specs):
            code_i = case["same_route"] if "same_route" in case else "r%d" % i
            shared = "same_route" in case
            mine = [(p["test_id"], p["test_status"]) for p in ev
                    if p["route_code"] == code_i and p["test_status"] is not None
                    and (p["test_id"].startswith("w%d." % i) or
                         (not shared and p["test_id"] == "broken-runner-'%s'" % code_i))]
            want = []
            r = spec.get("raise_at")
            for j in range(spec["tests"]):
                if r == j:
                    break
                tid = "w%d.t%d" % (i, j)
                if spec.get("direct") and j % 2:
                    want += [(tid, "inprogress"), (tid, "success")]
                else:
                    want += [(tid, "inprogress"), (tid, ["success", "fail", "skip"][(i + j) % 3])]
            if spec.get("raise_base"):
                r = None      # a BaseException leaving the worker: nothing demanded beyond its earlier events
                mine = [m for m in mine if not m[0].startswith("broken-runner")]
            if r is not None:
                want += [("broken-runner-'%s'" % code_i, "inprogress"), ("broken-runner-'%s'" % code_i, "fail")]
            if shared and r is not None:
                want = want[:-2]  # broken runners share one id under a shared route code: counted below
            ctx.check(mine == want, "events.exactly-once-in-worker-order",
                      lambda: {"worker": i, "got": mine, "want": want, **detail()})
            if spec.get("stamped"):
                got, want = [], []
                for p in ev:
                    if p["route_code"] != code_i or not (p["test_id"] or "").startswith("w%d." % i):
                        continue
                    jj = int(p["test_id"].split(".t")[1])
                    t0, t1 = stamps(i, jj)
                    if spec.get("direct") and jj % 2:
                        continue        # (raw events without a time of their own)
                    if p["test_status"] is not None:
                        got.append((p["test_id"], p["test_status"], p["timestamp"]))
                        want.append((p["test_id"], p["test_status"], t0 if p["test_status"] == "inprogress" else t1))
                for tid in sorted({p["test_id"] for p in ev if p["route_code"] == code_i and p["file_name"] == "log"}):
                    got.append((tid, b"".join(p["file_bytes"] for p in ev if p["route_code"] == code_i
                                              and p["test_id"] == tid and p["file_name"] == "log")))
                    want.append((tid, b"".join(SPLIT_LOG)))
                ctx.check(got == want, "events.times-and-details-as-emitted",
                          lambda: {"worker": i, "reached the caller's result": got, "emitted": want, **detail()})
            if spec.get("tag_churn"):
                finals = [(p["test_id"], sorted(p["test_tags"] or ())) for p in ev
                          if p["route_code"] == code_i and p["test_id"].startswith("w%d." % i)
                          and p["test_status"] in ("success", "fail", "skip")]
                wanted = [(tid, [] if (spec.get("direct") and int(tid.split(".t")[1]) % 2) else ["own%s" % tid.split(".t")[1]])
                          for tid, _ in finals]        # (a 'direct' worker's odd tests are raw events without tags)
                ctx.check(finals == wanted, "events.exactly-once-in-worker-order",
                          lambda: {"worker": i, "final events reached the caller with tags": finals,
                                   "emitted with": wanted, **detail()})
            if r is not None and shared:
                n_fail = sum(1 for p in ev if p["test_id"] == "broken-runner-'%s'" % code_i
                             and p["test_status"] == "fail")
                n_raise = sum(1 for sp in specs if sp.get("raise_at") is not None and not sp.get("raise_base"))
                ctx.check(n_fail == n_raise, "broken-runner.reported",
                          lambda: {"reported": n_fail, "raising workers": n_raise, **detail()})
            elif r is not None:
                ctx.check(("broken-runner-'%s'" % code_i, "fail") in mine, "broken-runner.reported",
                          lambda: {"worker": i, "got": mine, **detail()})


def _all_done_before_abort(case, sch):
    return False


def x_schedule(ctx, case):
    if case.get("mode") == "random":
        import random
        chooser = S.random_chooser(random.Random(case["rseed"]), case.get("p", 0.5))
    elif case.get("mode") == "pct":
        import random
        chooser = S.pct_chooser(random.Random(case["rseed"]), depth=case.get("depth", 2))
    else:
        chooser = S.replay_chooser(case.get("prefix", []))
    sch, log, runlog, created, exc, yielded, shim, target = execute(case, chooser)
    detail = lambda: {"schedule": [k for n, k, c in sch.choices][:80], "trace-tail": sch.trace[-14:],  # noqa
                      "exc": repr(exc)}
    eff = case
    ab = case.get("abort")
    if ab and ab[0] == "interrupt" and not getattr(sch, "interrupt_fired", None):
        eff = dict(case, abort=None)   # run() finished before its n-th yield point: no abort happened
        ctx.count("interrupt-point-beyond-end")
    if ab and ab[0] == "result" and not isinstance(exc, Marker) and exc is None:
        eff = dict(case, abort=None)   # fewer events than k: the caller's result never raised
        ctx.count("result-fault-beyond-end")
    if ab and ab[0] == "wrap" and ab[1] >= len(case["workers"]):
        eff = dict(case, abort=None)
    check(ctx, eff, sch, log, runlog, created, exc, yielded, shim, target, detail)
    if not hasattr(ctx, "interleavings"):
        ctx.interleavings = set()
    ctx.interleavings.add(hash(tuple(sch.trace)))
    x_schedule.last = sch
    return len(case["workers"]) >= 2


SUBCHECKS = {"schedule": x_schedule}


def run(ctx):
    rng = ctx.rng
    ctx.interleavings = set()
    bound = 2 if ctx.quick else 3
    shapes = [("cts", [{"tests": 1}, {"tests": 1}]), ("stream", [{"tests": 1}, {"tests": 1}])]
    if not ctx.quick:
        shapes += [("cts", [{"tests": 2}, {"tests": 2}]), ("stream", [{"tests": 2}, {"tests": 2, "direct": True}])]
        shapes += [("cts", [{"tests": 1}, {"tests": 1}, {"tests": 1}]),
                   ("stream", [{"tests": 1}, {"tests": 1, "raise_at": 1}, {"tests": 1}])]
    for kind, workers in shapes:
        if not ctx.mine():
            continue

        def run_once(prefix, kind=kind, workers=workers):
            ctx.execute("schedule", {"kind": kind, "workers": workers, "prefix": prefix},
                        sample=(len(prefix) == 4))
            return x_schedule.last
        runs, complete = S.explore_dfs(run_once, bound, max_runs=6000 if ctx.quick else 300000,
                                       should_stop=ctx.out_of_time)
        ctx.note_space("%s: all schedules with <= %d preemptions, workers %r" % (kind, bound, workers),
                       runs, complete)
    # ---- every abort point for the 2 x 2 shape ------------------------------------------------------
    n = 0
    for kind in ("cts", "stream"):
        workers = [{"tests": 2}, {"tests": 2}, {"tests": 1}]
        aborts = [["make_tests", k] for k in range(0, 3)]
        aborts += [["interrupt", k] for k in range(1, 14)]
        if kind == "cts":
            aborts += [["wrap", k] for k in range(0, 3)]
        else:
            aborts += [["result", k] for k in range(1, 11)]
        for ab in aborts:
            for rep in range(3 if ctx.quick else 20):
                if not ctx.mine():
                    continue
                n += 1
                ctx.execute("schedule", {"kind": kind, "workers": workers, "abort": ab, "mode": "random",
                                         "rseed": rng.randrange(10 ** 9), "p": rng.choice([0.1, 0.5, 0.9])},
                            sample=(n % 53 == 0))
                if kind == "cts" and rep == 0:
                    ctx.execute("schedule", {"kind": kind, "workers": workers, "abort": ab, "mode": "random",
                                             "wrap_own_stop": True, "rseed": rng.randrange(10 ** 9), "p": 0.5})
    # the same suite object run again after each kind of abort
    for kind in ("cts", "stream"):
        for ab in ([["make_tests", 1], ["interrupt", 4], ["interrupt", 9]] +
                   ([["wrap", 1]] if kind == "cts" else [["result", 2], ["result", 5]])):
            for rep in range(3 if ctx.quick else 20):
                if ctx.mine():
                    n += 1
                    ctx.execute("schedule", {"kind": kind, "workers": [{"tests": 2}, {"tests": 2}], "abort": ab,
                                             "rerun": True, "mode": "random", "rseed": rng.randrange(10 ** 9),
                                             "p": rng.choice([0.1, 0.5, 0.9])})
    for kind in ("cts", "stream"):
        for rerun in (False, True):
            if ctx.mine():
                n += 1
                ctx.execute("schedule", {"kind": kind, "workers": [{"tests": 1}, {"tests": 1}], "abort": ["make_tests_call"],
                                         "rerun": rerun, "mode": "random", "rseed": rng.randrange(10 ** 9), "p": 0.5})
        for at in (0, 1, 2):
            for rep in range(2 if ctx.quick else 10):
                if ctx.mine():
                    n += 1
                    ctx.execute("schedule", {"kind": kind, "workers": [{"tests": 2, "raise_at": at, "falsy": True}, {"tests": 2}],
                                             "mode": "random", "rseed": rng.randrange(10 ** 9), "p": 0.5})
    for rep in range(6 if ctx.quick else 40):
        if ctx.mine():
            n += 1
            ctx.execute("schedule", {"kind": "cts", "workers": [{"tests": 2}, {"tests": 1}, {"tests": 2}], "case_workers": True,
                                     "mode": "random", "rseed": rng.randrange(10 ** 9), "p": rng.choice([0.1, 0.5, 0.9])})
    # a worker whose run() lets a BaseException (sys.exit in a test) escape: run() still returns
    for kind in ("cts", "stream"):
        for at in (0, 1, 2):
            for rep in range(3 if ctx.quick else 20):
                if ctx.mine():
                    n += 1
                    ctx.execute("schedule", {"kind": kind, "workers": [{"tests": 2, "raise_at": at, "raise_base": True},
                                                                       {"tests": 2}, {"tests": 1}],
                                             "mode": "random", "rseed": rng.randrange(10 ** 9), "p": 0.5})
    # a worker that stops its result (own fail-fast) and then breaks is still reported
    for kind in ("cts", "stream"):
        for at in (0, 1, 2):
            for rep in range(3 if ctx.quick else 20):
                if ctx.mine():
                    n += 1
                    ctx.execute("schedule", {"kind": kind, "workers": [{"tests": 2, "raise_at": at, "stop_first": True},
                                                                       {"tests": 2}],
                                             "mode": "random", "rseed": rng.randrange(10 ** 9), "p": 0.5})
    ctx.note_space("every abort point (make_tests after k, wrap_result for k, caller's result at event k, "
                   "KeyboardInterrupt at run()'s n-th yield point) for 3 workers, several random schedules each", n)
    ctx.notes["random_cases"] = True
    for i in range(ctx.scale(2500, 200000)):
        if ctx.out_of_time():
            break
        kind = rng.choice(["cts", "stream"])
        workers = []
        for _ in range(rng.randint(1, 4)):
            w = {"tests": rng.randint(0, 3)}
            if kind == "stream" and rng.random() < 0.25:
                w["tag_churn"] = True
            elif rng.random() < 0.25:
                w["stamped"] = True
            if rng.random() < 0.2:
                w["raise_at"] = rng.randint(0, w["tests"])
                if rng.random() < 0.4:
                    w["stop_first"] = True
                elif rng.random() < 0.25:
                    w["raise_base"] = True
                elif rng.random() < 0.3:
                    w["falsy"] = True
            if kind == "stream" and rng.random() < 0.4:
                w["direct"] = True
            workers.append(w)
        case = {"kind": kind, "workers": workers, "mode": rng.choice(["random", "random", "pct"]),
                "rseed": rng.randrange(10 ** 9), "p": rng.choice([0.1, 0.5, 0.9]), "depth": rng.randint(1, 3)}
        if kind == "stream" and rng.random() < 0.2:
            case["same_route"] = rng.choice([None, "shared"])
        if kind == "cts" and rng.random() < 0.25:
            case["case_workers"] = True
        if kind == "cts" and rng.random() < 0.25:
            case["target"] = "nostop"
        if kind == "cts" and rng.random() < 0.2:
            case["cts_fault"] = rng.randint(1, 6)
            for w in workers:
                w.pop("raise_at", None)  # the fault must hit a worker's test, not a broken-runner report
        elif rng.random() < 0.3:
            r = rng.random()
            if r < 0.05:
                case["abort"] = ["make_tests_call"]
            elif r < 0.3:
                case["abort"] = ["make_tests", rng.randint(0, len(workers) - 1)]
            elif r < 0.6:
                case["abort"] = ["interrupt", rng.randint(1, 20)]
            elif kind == "cts":
                case["abort"] = ["wrap", rng.randint(0, len(workers) - 1)]
            else:
                case["abort"] = ["result", rng.randint(1, 12)]
                if rng.random() < 0.4:
                    case["abort_exc"] = "Empty"
        if "cts_fault" not in case and rng.random() < (0.35 if "abort" in case else 0.05):
            case["rerun"] = True
        ctx.execute("schedule", case)
    ctx.notes["distinct_interleavings"] = len(ctx.interleavings)
