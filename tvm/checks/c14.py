"""C14 - Deferred-returning tests succeed iff all completed cleanly; reactor left clean."""

import gc

from .. import recorders, vreactor

PROPERTY = "C14"
LEVEL = "fault_enumeration"
RULE = (
    "a case is a history of 1..2 test programs run by AsynchronousDeferredRunTest (plain and "
    "ForBrokenTwisted) on a deterministic virtual-time reactor.  Each of setUp, test, tearDown and "
    "0..3 cleanups independently: returns / raises an error or failure / raises skip / returns an "
    "already fired or failed Deferred / a Deferred firing or failing after delta / never fires; and "
    "may leave a delayed call (plain, or one that re-arms itself), log an error to Twisted, drop a "
    "failed Deferred, record an expectThat mismatch.  Timeouts from a small grid relative to the "
    "delays; reactor.stop() requested at every instant of {0} + event times + midpoints + after; "
    "logging suppression and capture on/off.  A timeline model in virtual time gives clean in "
    "{True, False} and kind in {ok, timeout, interrupted}.  All placements of <= 2 non-trivial "
    "behaviours over the stages are enumerated (fault enumeration); random programs beyond.  "
    "Distinct = canonical JSON of the history; non-trivial = at least one stage is not a plain return."
)
REQUIRED = {
    "mon:outcome.its-details-can-be-read": 500,
    "mon:rerun.clean-run-after-a-timed-out-one": 50,
    "mon:exactly-one-outcome-in-bracket": 1000,
    "mon:success-iff-clean": 1000,
    "mon:next-stage-only-after-deferred-fired": 500,
    "mon:cleanups-lifo-all-run": 300,
    "mon:timeout-is-error": 100,
    "mon:interrupt-is-error-and-asks-to-stop": 100,
    "mon:after.no-pending-calls": 1000,
    "mon:after.log-observers-restored": 1000,
    "mon:real-reactor.agrees": 5,
}
ASSUMPTIONS = [
    "exact ties (a Deferred firing at exactly the timeout or the stop instant) are excluded from the iff "
    "but still subject to the structural and clean-up checks",
    "CPython reference counting collects a dropped Deferred immediately (plus an explicit gc.collect())",
    "which cleanups run after a timeout or an interrupt is not specified; only reactor / observer "
    "cleanliness is demanded there",
]

STAGES = ["setUp", "test", "tearDown"]


def duration(b):
    k = b["end"]
    if k in ("fire_at", "fail_at"):
        return b["arg"]
    if k == "never":
        return float("inf")
    return 0.0


def fails(b):
    return b["end"] in ("raise", "fail", "failed", "fail_at")


def model(prog):
    """Timeline in virtual time -> dict(clean, kind, skip, ran=[stage names], ties)."""
    T, tau = prog["timeout"], prog.get("stop_at")
    now = 0.0
    dirty = False
    ran = []
    failed = False
    skipped = False
    kind = "ok"
    ties = False
    leftovers = []   # absolute times of plain delayed calls left behind
    base = []        # stages that raised / failed with a KeyboardInterrupt
    stack = [("cleanup%d" % i, b) for i, b in enumerate(prog.get("cleanups", []))]
    if prog.get("dup_cleanup") and stack:
        # the same clean-up (equal callable and arguments: flush, close, flush) registered before and after cleanup0
        stack = [("dup", DUP)] + stack[:1] + [("dup", DUP)] + stack[1:]

    def limit():
        return min(T, tau if tau is not None else float("inf"))

    def do(name, b):
        nonlocal now, dirty, failed, skipped, kind, ties
        ran.append(name)
        for x in b.get("do", []):
            if x in ("logerr", "logerr_new", "drop_failed", "expect_mismatch", "logerr2_flush1"):
                dirty = True
            elif x == "logerr_flush":
                pass  # logged and flushed by the test itself: clean
            elif x.startswith("leave_call:"):
                leftovers.append(now + float(x.split(":")[1]))
            elif x == "leave_chain":
                leftovers.append(float("inf"))
            elif x == "leave_reader":
                leftovers.append(float("inf"))      # a selectable left registered with the reactor: junk, too
            elif x == "leave_closing":
                # a connection that finishes closing in the next reactor iteration.  (Only generated in programs whose
                # stages all complete synchronously: the reactor does not iterate again before the run ends.)  The
                # ForBrokenTwisted variant iterates the reactor twice before it looks for leftovers - clean; the plain
                # one does not - the selectable is a leftover
                if prog.get("runner") != "broken":
                    leftovers.append(float("inf"))
        end = now + duration(b)
        if end == limit() and duration(b) > 0:
            ties = True
        if end > limit() or (end == limit() and duration(b) > 0):
            kind = "timeout" if T <= (tau if tau is not None else float("inf")) else "interrupted"
            now = limit()
            return False
        now = end
        if "late_cleanup" in b.get("do", []):
            # a cleanup registered when this stage completes (in the callback of the Deferred it returned):
            # it is the most recently registered one, so it runs first
            stack.append(("late-" + name, {"end": "ret"}))
        if b["end"] == "skip":
            skipped = True
            return "stagefail"
        if fails(b):
            failed = True
            if b.get("exc") == "kbd":
                base.append(name)       # not an Exception: reported as an error AND leaves run() afterwards
            return "stagefail"
        return True

    r = do("setUp", prog["setUp"])
    if r is True:
        r = do("test", prog["test"])
        if r is not False:
            r = do("tearDown", prog["tearDown"])
    if r is not False:
        while stack:
            cname, cb = stack.pop()
            r = do(cname, cb)
            if r is False:
                break
    if tau is not None and kind == "ok" and tau > now:
        leftovers.append(tau)  # the stop request itself is still scheduled when the test ends
    if prog.get("slow_work") and kind == "ok" and prog["slow_work"][0] > now:
        leftovers.append(prog["slow_work"][0])   # that call, too, is still scheduled when the test ends
    if kind == "ok" and any(t > now for t in leftovers):
        dirty = True
    # zero-delay work scheduled in the final synchronous burst is still pending when the reactor
    # stops: junk for the plain runner, shaken out by ForBrokenTwisted's extra iterations
    if kind == "ok" and any(t == now for t in leftovers) and prog.get("runner") != "broken":
        dirty = True
    clean = kind == "ok" and not failed and not skipped and not dirty
    return {"clean": clean, "kind": kind, "skipped": skipped, "failed": failed or dirty, "ran": ran,
            "ties": ties, "end": now, "base": base}


class _Sel:
    """A selectable somebody forgot to unregister."""

    def fileno(self):
        return -1

    def connectionLost(self, reason):
        pass

    def logPrefix(self):
        return "sel"


class _ClosingSel(_Sel):
    """A connection that is being shut down when the test ends: the next time the reactor looks at it, it
    unregisters itself and defers one last bit of book-keeping."""
    tvm_readable = True

    def __init__(self, reactor):
        self.reactor = reactor

    def doRead(self):
        self.tvm_readable = False
        self.reactor.removeReader(self)
        self.reactor.callLater(0, lambda: None)


DUP = {"end": "ret"}
LOG_TEXTS = ["report.txt", "caf\xe9 \u2603.txt", "\U0001f600.txt", "a\x00b\r\nc\x1b.txt", "100%s {x} %(y)s.txt",
             "caf\udce9-\udcff.txt"]       # (the last: os.fsdecode() of a file name that is not UTF-8)


def build_case(prog, reactor, stagelog):
    import testtools
    from twisted.internet import defer
    from twisted.python import log as tlog
    from testtools.twistedsupport import (AsynchronousDeferredRunTest,
                                          AsynchronousDeferredRunTestForBrokenTwisted)
    from testtools.matchers import Equals
    runner = AsynchronousDeferredRunTestForBrokenTwisted if prog.get("runner") == "broken" \
        else AsynchronousDeferredRunTest

    def behave(case, name, b):
        stagelog.append(("enter", name, reactor.seconds()))
        if name == "setUp" and prog.get("stop_at") is not None:
            def stopper():
                # (optionally after slow synchronous work: the clock moves on, nothing else runs meanwhile)
                reactor.rightNow += prog.get("slow_stop", 0)
                reactor.stop()
            reactor.callLater(prog["stop_at"], stopper)
        if name == "setUp" and prog.get("slow_work"):
            def slow(amount=prog["slow_work"][1]):
                reactor.rightNow += amount
            reactor.callLater(prog["slow_work"][0], slow)
        for x in b.get("do", []):
            if x == "logerr":
                tlog.err(ValueError("logged-" + name))
            elif x == "logerr_new":
                # the same through the twisted.logger API (what Twisted itself uses, e.g. for a delayed call
                # that raises)
                from twisted.logger import Logger
                from twisted.python.failure import Failure
                Logger(namespace="tvm.c14").failure("logged-" + name, Failure(ValueError("logged-" + name)))
            elif x.startswith("logmsg:"):
                # plain messages (not errors) sent to Twisted's log, through both APIs: what a test logs on the way does
                # not decide its outcome, whatever the text
                from twisted.logger import Logger
                text = LOG_TEXTS[int(x.split(":")[1])]
                tlog.msg("opening " + text)
                Logger(namespace="tvm.c14").info("processing {name}", name=text)
            elif x == "drop_failed":
                defer.fail(RuntimeError("dropped-" + name))
            elif x == "expect_mismatch":
                case.expectThat(1, Equals(2))
            elif x == "logerr_flush":
                from testtools.twistedsupport import flush_logged_errors
                tlog.err(KeyError("flushed-" + name))
                flush_logged_errors(KeyError)
            elif x == "logerr2_flush1":
                from testtools.twistedsupport import flush_logged_errors
                tlog.err(ValueError("kept-" + name))
                tlog.err(KeyError("flushed-" + name))
                flush_logged_errors(KeyError)
            elif x.startswith("leave_call:"):
                reactor.callLater(float(x.split(":")[1]), lambda: None)
            elif x == "leave_reader":
                reactor.addReader(_Sel())
            elif x == "leave_closing":
                reactor.addReader(_ClosingSel(reactor))
            elif x == "leave_chain":
                def rearm():
                    reactor.callLater(5.0, lambda: None)
                reactor.callLater(0, rearm)
        late = "late_cleanup" in b.get("do", [])

        def register_late(r=None):
            case.addCleanup(behave, case, "late-" + name, {"end": "ret"})
            return r
        k = b["end"]
        if late and k not in ("fire_at", "fail_at", "never"):
            register_late()
        if k == "ret":
            return None
        exc_type = KeyboardInterrupt if b.get("exc") == "kbd" else ValueError
        if k == "raise":
            raise exc_type("E@" + name)
        if k == "fail":
            raise AssertionError("F@" + name)
        if k == "skip":
            case.skipTest("S@" + name)
        # what is handed back may be a Deferred subclass, or the Deferred gatherResults() makes (a DeferredList)
        dtype = b.get("dtype")

        class SubDeferred(defer.Deferred):
            pass
        D = SubDeferred if dtype == "subclass" else defer.Deferred
        wrap = (lambda x: defer.gatherResults([x])) if dtype == "gather" else (lambda x: x)
        if k == "fired":
            d = D()
            d.callback(None)
            return wrap(d)
        if k == "failed":
            d = D()
            d.errback(exc_type("E@" + name))
            return d
        d = D()
        d.addBoth(lambda r: (stagelog.append(("fired", name, reactor.seconds())), r)[1])
        if late:
            d.addBoth(register_late)
        if k == "fire_at":
            reactor.callLater(b["arg"], d.callback, None)
        elif k == "fail_at":
            reactor.callLater(b["arg"], d.errback, exc_type("E@" + name))
            return d
        return wrap(d)

    class Prog(testtools.TestCase):
        run_tests_with = runner.make_factory(
            reactor=reactor, timeout=prog["timeout"],
            suppress_twisted_logging=prog.get("suppress", True),
            store_twisted_logs=prog.get("store", True))

        def setUp(self):
            super().setUp()
            for i, b in enumerate(prog.get("cleanups", [])):
                if i == 0 and prog.get("dup_cleanup"):
                    self.addCleanup(behave, self, "dup", DUP)
                self.addCleanup(behave, self, "cleanup%d" % i, b)
                if i == 0 and prog.get("dup_cleanup"):
                    self.addCleanup(behave, self, "dup", DUP)
            return behave(self, "setUp", prog["setUp"])

        def test(self):
            return behave(self, "test", prog["test"])

        def tearDown(self):
            super().tearDown()
            return behave(self, "tearDown", prog["tearDown"])

        def id(self):
            return "async.prog"
    return Prog("test")


def observers():
    from twisted.python import log as tlog
    try:
        from twisted.logger import globalLogPublisher
        g = list(globalLogPublisher._observers)
    except ImportError:
        g = []
    return g, list(tlog.theLogPublisher.observers)


def _extra_observer_1(event):
    pass


def _extra_observer_2(event):
    pass


def x_history(ctx, case):
    # an application that has observers of its own on Twisted's log (a file log, a metrics hook): after the run they
    # are all there again - every one of them, in their order
    from twisted.python import log as tlog
    extra = [_extra_observer_1, _extra_observer_2][:case.get("extra_observers", 0)]
    for o in extra:
        tlog.addObserver(o)
    try:
        return _history(ctx, case)
    finally:
        for o in extra:
            try:
                tlog.removeObserver(o)
            except ValueError:
                pass


def _history(ctx, case):
    from testtools.twistedsupport import flush_logged_errors
    nontrivial = False
    for pi, prog in enumerate(case["progs"]):
        reactor = vreactor.make_reactor()
        stagelog = []
        the_case = build_case(prog, reactor, stagelog)
        log = recorders.Log()
        result = recorders.ExtRecorder(log)
        obs_before = observers()
        propagated = None
        try:
            the_case.run(result)
        except BaseException as e:  # noqa
            propagated = e
        if "drop_failed" in repr(prog):
            gc.collect()
        m = model(prog)
        if m["kind"] != "ok":
            # stages abandoned by a timeout / interrupt must not come back to life later
            n_entered = len(stagelog)
            gc.collect()
            ctx.check(len(stagelog) == n_entered and not reactor.getDelayedCalls(),
                      "after.abandoned-stages-stay-dead",
                      lambda: {"prog": prog, "late": stagelog[n_entered:],
                               "pending": [str(c) for c in reactor.getDelayedCalls()]})
        names = log.names()
        core = [n for n in names if n in ("startTest", "stopTest") or n in recorders.OUTCOMES]
        detail = lambda: {"prog": prog, "index": pi, "events": names, "model": m,  # noqa: E731
                          "stagelog": stagelog, "propagated": repr(propagated),
                          "details": sorted((log.of(*recorders.OUTCOMES)[0].payload["details"] or {}).keys())
                          if log.of(*recorders.OUTCOMES) else None}
        ok = len(core) == 3 and core[0] == "startTest" and core[2] == "stopTest" and core[1] in recorders.OUTCOMES
        if m["base"]:
            # a stage failed with KeyboardInterrupt: one outcome (an error), and the interrupt leaves run()
            ctx.check(ok and isinstance(propagated, KeyboardInterrupt) and core[1] == "addError",
                      "exactly-one-outcome-in-bracket", detail)
        elif m["ties"] and "'kbd'" in repr(prog):
            # a stage failing with KeyboardInterrupt at exactly the timeout instant: either order is right
            ctx.check(ok and (propagated is None or isinstance(propagated, KeyboardInterrupt)),
                      "exactly-one-outcome-in-bracket", detail)
        else:
            ctx.check(ok and propagated is None, "exactly-one-outcome-in-bracket", detail)
        outcome = core[1] if ok else None
        if ok:
            # the outcome can be REPORTED: every detail the runner attached to it (captured log, tracebacks, logged
            # errors) yields its bytes - a result that renders them (TextTestResult) would otherwise fail inside
            # addError/addFailure and the outcome never reach the report
            dets = log.of(*recorders.OUTCOMES)[0].payload["details"] or {}
            unreadable = {k: v[1].decode("utf8", "replace") for k, v in dets.items() if v[0] == "?"}
            ctx.check(not unreadable, "outcome.its-details-can-be-read", lambda: {"unreadable": unreadable, **detail()})
        # ---- reactor and observers clean, whatever happened ------------------------------------
        ctx.check(not reactor.getDelayedCalls() and not reactor.running, "after.no-pending-calls",
                  lambda: {"pending": [str(c) for c in reactor.getDelayedCalls()], **detail()})
        ctx.check(observers() == obs_before, "after.log-observers-restored",
                  lambda: {"before": [repr(o) for o in obs_before[0] + obs_before[1]],
                           "after": [repr(o) for o in observers()[0] + observers()[1]], **detail()})
        # ---- stage sequencing -----------------------------------------------------------------------
        entered = [(n, t) for k, n, t in stagelog if k == "enter"]
        fired = {n: t for k, n, t in stagelog if k == "fired"}
        seq_ok = True
        for (a, ta), (b, tb) in zip(entered, entered[1:]):
            pa = _stage_spec(prog, a)
            if pa["end"] in ("fire_at", "fail_at", "never"):
                if a not in fired or fired[a] > tb:
                    seq_ok = False
        ctx.check(seq_ok, "next-stage-only-after-deferred-fired", detail)
        if m["kind"] == "ok":
            want_stages = m["ran"]
            ctx.check([n for n, _ in entered] == want_stages, "cleanups-lifo-all-run",
                      lambda: {"entered": [n for n, _ in entered], "want": want_stages, **detail()})
        # ---- outcome ------------------------------------------------------------------------------------
        if outcome is not None and not m["ties"]:
            if m["kind"] == "timeout":
                ctx.check(outcome == "addError", "timeout-is-error", detail)
                # "an interrupt ALSO asks the result to stop": a test that merely timed out does not end the run
                ctx.check("stop" not in names, "timeout-is-error",
                          lambda: {"a timeout asked the result to stop": True, **detail()})
            elif m["kind"] == "interrupted":
                ctx.check(outcome == "addError" and "stop" in names, "interrupt-is-error-and-asks-to-stop", detail)
            else:
                ctx.check((outcome == "addSuccess") == m["clean"], "success-iff-clean", detail)
                if m["skipped"] and not m["failed"]:
                    ctx.check(outcome == "addSkip", "skip-reported-as-skip", detail)
        if any(_nontrivial(prog)):
            nontrivial = True
        if prog.get("rerun") and m["kind"] == "ok" and propagated is None:
            # the same instance run again on the same reactor: same stages, same outcome, still clean
            first = ([n for n, _ in entered], outcome)
            del stagelog[:]
            log2 = recorders.Log()
            try:
                the_case.run(recorders.ExtRecorder(log2))
            except BaseException as e:  # noqa
                propagated = e
            core2 = [n for n in log2.names() if n in recorders.OUTCOMES]
            second = ([n for k2, n, t in stagelog if k2 == "enter"], core2[0] if len(core2) == 1 else core2)
            ctx.check(first == second and not reactor.getDelayedCalls() and observers() == obs_before,
                      "rerun.same-stages-and-outcome",
                      lambda: {"first": first, "second": second, "propagated": repr(propagated),
                               "pending": [str(c) for c in reactor.getDelayedCalls()], "prog": prog})
        leftover1 = []
        if m["kind"] == "timeout" and not m["ties"] and propagated is None and ok:
            # the SAME instance run again after a run that timed out (its cleanups were abandoned with it), this time
            # with stages that all return at once and one cleanup of its own: one outcome, success, and only what
            # THIS run registered is run
            leftover1 = flush_logged_errors()       # (still reported below)
            saved = {k: prog.get(k) for k in ("setUp", "test", "tearDown", "cleanups", "stop_at", "slow_work")}
            prog.update({"setUp": {"end": "ret"}, "test": {"end": "ret"}, "tearDown": {"end": "ret"},
                         "cleanups": [{"end": "ret"}]})
            prog.pop("stop_at", None)
            prog.pop("slow_work", None)
            del stagelog[:]
            log2 = recorders.Log()
            prop2 = None
            try:
                the_case.run(recorders.ExtRecorder(log2))
            except BaseException as e:  # noqa
                prop2 = e
            for k, v in saved.items():
                if v is None:
                    prog.pop(k, None)
                else:
                    prog[k] = v
            core2 = [n for n in log2.names() if n in ("startTest", "stopTest") or n in recorders.OUTCOMES]
            entered2 = [n for k2, n, t in stagelog if k2 == "enter"]
            ctx.check(core2 == ["startTest", "addSuccess", "stopTest"] and prop2 is None
                      and entered2 == ["setUp", "test", "tearDown"] + (["dup", "cleanup0", "dup"] if prog.get("dup_cleanup") else ["cleanup0"])
                      and not reactor.getDelayedCalls()
                      and observers() == obs_before, "rerun.clean-run-after-a-timed-out-one",
                      lambda: {"first run": prog, "second run (all stages return at once, one cleanup)": core2,
                               "stages entered": entered2, "propagated": repr(prop2),
                               "pending": [str(c) for c in reactor.getDelayedCalls()]})
        # keep the process-global error observer clean for the next program, as a user would
        leftover = leftover1 + flush_logged_errors()
        ctx.check(not leftover, "after.no-logged-error-left-for-the-next-test",
                  lambda: {"leftover": [repr(f) for f in leftover], **detail()})
    return nontrivial


def late_cleanup_programs():
    out = []
    for runner in ("plain", "broken"):
        for n_cleanups in (0, 2):
            for slot in ("setUp", "test", "tearDown", "cleanup0", "cleanup1"):
                if slot.startswith("cleanup") and n_cleanups == 0:
                    continue
                for end in ({"end": "ret"}, {"end": "fire_at", "arg": 0.5}, {"end": "fail_at", "arg": 0.5},
                            {"end": "raise"}, {"end": "fired"}):
                    p = {"setUp": dict(PLAIN), "test": dict(PLAIN), "tearDown": dict(PLAIN),
                         "cleanups": [dict(PLAIN) for _ in range(n_cleanups)], "timeout": 2.0, "runner": runner}
                    b = dict(end, do=["late_cleanup"])
                    if slot.startswith("cleanup"):
                        p["cleanups"][int(slot[7:])] = b
                    else:
                        p[slot] = b
                    out.append(p)
        # setUp fails after registering cleanups, one of which returns a Deferred that fires later
        for which in (0, 1, 2):
            for end in ({"end": "raise"}, {"end": "fail_at", "arg": 0.25}, {"end": "skip"}):
                p = {"setUp": dict(end), "test": dict(PLAIN), "tearDown": dict(PLAIN),
                     "cleanups": [dict(PLAIN), dict(PLAIN), dict(PLAIN)], "timeout": 2.0, "runner": runner}
                p["cleanups"][which] = {"end": "fire_at", "arg": 0.5}
                out.append(p)
    return out


def _stage_spec(prog, name):
    if name.startswith("late-") or name == "dup":
        return {"end": "ret"}
    if name.startswith("cleanup"):
        return prog["cleanups"][int(name[7:])]
    return prog[name]


def _nontrivial(prog):
    for s in STAGES:
        yield prog[s]["end"] != "ret" or bool(prog[s].get("do"))
    yield bool(prog.get("cleanups")) or prog.get("stop_at") is not None


REAL_DRIVER = r'''
import json, sys
sys.path.insert(0, sys.argv[1])
from twisted.internet import reactor, defer
from twisted.python import log
import testtools
from testtools.twistedsupport import AsynchronousDeferredRunTest
from testtools.testresult.doubles import ExtendedTestResult
try:
    from twisted.logger import globalLogPublisher
    obs = lambda: (list(globalLogPublisher._observers), list(log.theLogPublisher.observers))
except ImportError:
    obs = lambda: ([], list(log.theLogPublisher.observers))
out = []
def later(t, exc=None):
    d = defer.Deferred()
    if exc: reactor.callLater(t, d.errback, exc("boom"))
    else: reactor.callLater(t, d.callback, None)
    return d
BODIES = {
  "sync": lambda self: None,
  "fires": lambda self: later(0.03),
  "fails": lambda self: later(0.03, ValueError),
  "never": lambda self: defer.Deferred(),
  "leftover": lambda self: reactor.callLater(30, lambda: None) and None,
  "logged": lambda self: log.err(ValueError("logged")),
  "skip": lambda self: self.skipTest("why"),
  "cleanup-deferred": lambda self: self.addCleanup(later, 0.03),
}
for name, body in BODIES.items():
    class T(testtools.TestCase):
        run_tests_with = AsynchronousDeferredRunTest.make_factory(timeout=0.4)
        def test(self, body=body):
            return body(self)
    before = obs()
    r = ExtendedTestResult()
    T("test").run(r)
    out.append({"name": name, "events": [e[0] for e in r._events], "pending": len(reactor.getDelayedCalls()),
                "observers_ok": obs() == before})
from testtools.twistedsupport import AsynchronousDeferredRunTestForBrokenTwisted
for name, runner in (("zero-delay-plain", AsynchronousDeferredRunTest),
                     ("zero-delay-broken", AsynchronousDeferredRunTestForBrokenTwisted)):
    class T(testtools.TestCase):
        run_tests_with = runner.make_factory(timeout=0.4)
        def test(self):
            reactor.callLater(0, lambda: None)
    before = obs()
    r = ExtendedTestResult()
    T("test").run(r)
    out.append({"name": name, "events": [e[0] for e in r._events], "pending": len(reactor.getDelayedCalls()),
                "observers_ok": obs() == before})
print(json.dumps(out))
'''
REAL_EXPECT = {"zero-delay-plain": "addError", "zero-delay-broken": "addSuccess", "sync": "addSuccess", "fires": "addSuccess", "fails": "addError", "never": "addError",
               "leftover": "addError", "logged": "addError", "skip": "addSkip", "cleanup-deferred": "addSuccess"}


def x_real(ctx, case):
    import json
    import signal
    import subprocess
    import sys
    from .. import core
    r = subprocess.run([sys.executable, "-c", REAL_DRIVER, core.REPO_ROOT], capture_output=True, text=True,
                       timeout=120, preexec_fn=lambda: signal.signal(signal.SIGINT, signal.SIG_DFL))
    try:
        rows = json.loads(r.stdout.strip().splitlines()[-1])
    except Exception:
        ctx.inconclusive.append("real-reactor driver produced no result: rc=%s %s" % (r.returncode, r.stderr[-300:]))
        return False
    for row in rows:
        ok = (row["events"] == ["startTest", REAL_EXPECT[row["name"]], "stopTest"] and row["pending"] == 0
              and row["observers_ok"])
        ctx.check(ok, "real-reactor.agrees", lambda: {"row": row, "want": REAL_EXPECT[row["name"]]})
    return True


SUBCHECKS = {"history": x_history, "real": x_real}

PLAIN = {"end": "ret"}
ENDS = [{"end": "raise"}, {"end": "fail"}, {"end": "skip"}, {"end": "fired"}, {"end": "failed"},
        {"end": "fire_at", "arg": 0.5}, {"end": "fail_at", "arg": 0.5}, {"end": "fire_at", "arg": 1.5},
        {"end": "never"},
        {"end": "ret", "do": ["logerr"]}, {"end": "ret", "do": ["logerr_new"]}, {"end": "ret", "do": ["drop_failed"]},
        {"end": "raise", "exc": "kbd"}, {"end": "failed", "exc": "kbd"}, {"end": "fail_at", "arg": 0.5, "exc": "kbd"},
        {"end": "ret", "do": ["leave_reader"]}, {"end": "ret", "do": ["leave_reader", "leave_call:5.0"]},
        {"end": "ret", "do": ["leave_call:9"]}, {"end": "ret", "do": ["leave_chain"]},
        {"end": "ret", "do": ["expect_mismatch"]}, {"end": "fire_at", "arg": 0.5, "do": ["leave_call:0.2"]},
        {"end": "ret", "do": ["leave_call:0"]}, {"end": "ret", "do": ["logerr_flush"]},
        {"end": "ret", "do": ["logerr2_flush1"]}]


def run(ctx):
    rng = ctx.rng
    n = 0
    slots = ["setUp", "test", "tearDown", "cleanup0", "cleanup1"]

    def make(assign, T, tau, runner="plain"):
        p = {"setUp": dict(PLAIN), "test": dict(PLAIN), "tearDown": dict(PLAIN),
             "cleanups": [dict(PLAIN), dict(PLAIN)], "timeout": T, "runner": runner}
        for slot, b in assign:
            if slot.startswith("cleanup"):
                p["cleanups"][int(slot[7:])] = dict(b)
            else:
                p[slot] = dict(b)
        if tau is not None:
            p["stop_at"] = tau
        return p
    # single faults x timeouts x every interrupt instant
    for slot in slots:
        for b in ENDS:
            for T in (1.0, 2.0):
                for tau in (None, 0.1, 0.25, 0.75, 1.25, 3.0):
                    for runner in ("plain", "broken"):
                        if ctx.quick and (n + ctx.seed) % 3 and tau is not None:
                            n += 1
                            continue
                        if not ctx.mine():
                            continue
                        n += 1
                        ctx.execute("history", {"progs": [make([(slot, b)], T, tau, runner)]}, sample=(n % 307 == 0))
    ctx.note_space("single non-trivial behaviour: 5 stages x 24 behaviours x 2 timeouts x 6 stop instants x 2 "
                   "runner variants", n, not ctx.quick)
    # double faults (no interrupts)
    n = 0
    for i, s1 in enumerate(slots):
        for s2 in slots[i + 1:]:
            for b1 in ENDS:
                for b2 in ENDS:
                    if ctx.quick and (n + ctx.seed) % 4:
                        n += 1
                        continue
                    if not ctx.mine():
                        continue
                    n += 1
                    ctx.execute("history", {"progs": [make([(s1, b1), (s2, b2)], 2.0, None)]}, sample=(n % 307 == 0))
    ctx.note_space("double non-trivial behaviours: 10 stage pairs x 24 x 24 behaviours, timeout 2.0", n, not ctx.quick)
    # slow synchronous work that straddles the timeout AND the instant the test's Deferred fires (both
    # calls become due in one reactor pass, in time order), or that precedes an interrupt
    n = 0
    for runner in ("plain", "broken"):
        for end in ("fire_at", "fail_at"):
            for tf, T in ((1.5, 1.0), (0.5, 1.0), (1.5, 2.0), (2.5, 2.0)):
                for tau_w, amount in ((0.25, 0.5), (0.25, 3.0), (0.75, 3.0)):
                    for slot in ("setUp", "test", "tearDown", "cleanup0"):
                        if ctx.mine():
                            n += 1
                            p = make([(slot, {"end": end, "arg": tf})], T, None, runner)
                            p["slow_work"] = [tau_w, amount]
                            ctx.execute("history", {"progs": [p]})
                for tau, amount in ((0.25, 0.0), (0.25, 3.0), (0.75, 3.0), (0.25, 0.5)):
                    if ctx.mine():
                        n += 1
                        p = make([("test", {"end": end, "arg": tf})], T, tau, runner)
                        p["slow_stop"] = amount
                        ctx.execute("history", {"progs": [p]})
    ctx.note_space("slow synchronous work straddling timeout and firing instant / preceding an interrupt: 2 runners x "
                   "2 endings x 4 (delay, timeout) pairs x (3 x 4 stages + 4 interrupts)", n)
    # an explicit timeout of 0: everything synchronous still passes, anything that takes time does not
    n = 0
    for runner in ("plain", "broken"):
        for slot in ("setUp", "test", "tearDown", "cleanup0"):
            for b in ({"end": "fire_at", "arg": 0.001}, {"end": "fail_at", "arg": 0.001}, {"end": "fired"}, {"end": "ret"},
                      {"end": "fire_at", "arg": 0.5}):
                if ctx.mine():
                    n += 1
                    ctx.execute("history", {"progs": [make([(slot, b)], 0.0, None, runner)]})
    ctx.note_space("timeout 0: 2 runners x 4 stages x 5 behaviours", n)
    # cleanups registered late: when a stage completes, i.e. in the callback of the Deferred it returned
    n = 0
    for prog in late_cleanup_programs():
        if ctx.mine():
            n += 1
            ctx.execute("history", {"progs": [prog]})
    ctx.note_space("a cleanup registered when a stage completes: 5 stages x 5 endings x {0, 2} earlier cleanups x 2 "
                   "runners, plus setUp failing before a Deferred-returning cleanup", n)
    # stages and cleanups handing back a Deferred SUBCLASS / the DeferredList gatherResults() makes
    n = 0
    for runner in ("plain", "broken"):
        for slot in slots:
            for dtype in ("subclass", "gather"):
                for b in ({"end": "fire_at", "arg": 0.5}, {"end": "fire_at", "arg": 2.5}, {"end": "fired"}, {"end": "never"},
                          {"end": "fail_at", "arg": 0.5}):
                    if ctx.mine():
                        n += 1
                        ctx.execute("history", {"progs": [make([(slot, dict(b, dtype=dtype))], 2.0, None, runner)]})
                    if slot.startswith("cleanup") and ctx.mine():
                        n += 1
                        ctx.execute("history", {"progs": [make([(s2, dict(b, dtype=dtype)) for s2 in slots
                                                                 if s2.startswith("cleanup")], 4.0, None, runner)]})
    ctx.note_space("a Deferred subclass / a gatherResults() DeferredList handed back: 2 runners x 5 stages x 2 x 5 endings", n)
    n = 0
    for runner in ("plain", "broken"):
        for slot in slots:
            for extra in ([], ["logerr_flush"]):
                if ctx.mine():
                    n += 1
                    ctx.execute("history", {"progs": [make([(slot, {"end": "ret", "do": ["leave_closing"] + extra})], 2.0, None, runner)]})
    ctx.note_space("a connection that finishes closing in the next reactor iteration, left by a stage of an all-synchronous "
                   "test: 2 runners x 5 stages x 2", n)
    # two-test histories and random programs
    ctx.notes["random_cases"] = True

    def rand_prog():
        p = {"timeout": rng.choice([1.0, 2.0, 4.0]), "runner": rng.choice(["plain", "broken"]),
             "suppress": rng.random() < 0.7, "store": rng.random() < 0.7}
        for s in STAGES:
            p[s] = dict(rng.choice(ENDS)) if rng.random() < 0.35 else dict(PLAIN)
        p["cleanups"] = [dict(rng.choice(ENDS)) if rng.random() < 0.35 else dict(PLAIN)
                         for _ in range(rng.randint(0, 3))]
        for b in [p[s] for s in STAGES] + p["cleanups"]:
            if b["end"] in ("fire_at", "fail_at", "never", "fired", "failed") and rng.random() < 0.3:
                b["dtype"] = rng.choice(["subclass", "gather"])
        if rng.random() < 0.25:
            slot = rng.choice(STAGES + ["cleanups"])
            tgt = p[slot] if slot != "cleanups" else (rng.choice(p["cleanups"]) if p["cleanups"] else p["test"])
            tgt["do"] = list(tgt.get("do", [])) + ["late_cleanup"]
        if rng.random() < 0.2:
            slot = rng.choice(STAGES + ["cleanups"])
            tgt = p[slot] if slot != "cleanups" else (rng.choice(p["cleanups"]) if p["cleanups"] else p["test"])
            tgt["do"] = ["logmsg:%d" % rng.randrange(len(LOG_TEXTS))] + list(tgt.get("do", []))
        if p["cleanups"] and rng.random() < 0.15:
            p["dup_cleanup"] = True
        if rng.random() < 0.25:
            p["stop_at"] = rng.choice([0.1, 0.3, 0.6, 0.9, 1.1, 1.7, 2.3, 5.0])
        elif rng.random() < 0.3:
            p["rerun"] = True
        return p
    for i in range(ctx.scale(2500, 200000)):
        if ctx.out_of_time():
            break
        case = {"progs": [rand_prog() for _ in range(rng.choice([1, 1, 2]))]}
        if rng.random() < 0.3:
            case["extra_observers"] = rng.choice([1, 2, 2])
        ctx.execute("history", case)
    if ctx.shard == 0:
        ctx.execute("real", {})
