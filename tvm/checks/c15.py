"""C15 - Spinner returns the function's own result within the timeout and restores the process."""

import json
import os
import signal
import subprocess
import sys

from .. import programs
from .. import core, vreactor

PROPERTY = "C15"
LEVEL = "fault_enumeration"
RULE = (
    "a case is a history of 1..3 run() calls on ONE Spinner over a deterministic virtual-time "
    "reactor: each run has a function kind (returns / raises synchronously / returns a Deferred "
    "already fired or failed / firing or failing at t / never / chained), a timeout T, an optional "
    "reactor.stop() request at instant tau (before, between and after the other events), 0..3 further "
    "delayed calls and 0..2 selectables left behind, optional re-installation of the SIGINT handler "
    "by the function, optional re-entrant run, optional pre-patched reactor.stop, clear_junk() or "
    "not between runs; pre-installed SIGINT/SIGTERM handlers in {SIG_DFL, SIG_IGN, Python function, "
    "default_int_handler}.  A wrapper snapshots (reactor.stop, signal handlers, delayed calls, "
    "selectables, running) before and compares in a finally - i.e. also on every exceptional exit.  "
    "The grid of (kind x t x T x tau) is enumerated; random histories beyond; ~a dozen runs on the "
    "real global reactor in a subprocess incl. a real SIGINT.  Distinct = canonical JSON of the "
    "history; non-trivial = a Deferred-returning function or an interrupt."
)
REQUIRED = {
    "mon:result==function's-own": 500,
    "mon:timeout-raises-TimeoutError": 100,
    "mon:stopped-first-raises-NoResultError": 100,
    "mon:after.reactor-not-running-and-empty": 1000,
    "mon:after.reactor.stop-restored": 1000,
    "mon:after.signal-handlers-restored": 1000,
    "mon:junk.reported-and-refused-until-cleared": 200,
    "mon:reentry.refused": 50,
    "mon:reuse.no-stale-result": 100,
    "mon:real-reactor.agrees": 5,
}
ASSUMPTIONS = [
    "exact ties in virtual time are not generated, except 'Deferred fires/fails at exactly the timeout, "
    "scheduled after it', for which the statement prescribes TimeoutError",
    "signal handlers installed from C (getsignal() is None) and run() off the main thread are outside the domain",
    "the virtual reactor orders calls due at the same instant by scheduling order, like the real one",
]


class Sel:
    """A selectable left registered.  Nobody has any business telling it that its connection is lost (the run it
    belonged to is over; Spinner removes and reports it): if somebody does, its protocol reacts the way protocols
    do - by scheduling something."""
    reactor = None

    def __init__(self, n):
        self.n = n

    def __repr__(self):
        # (what a transport's repr may well hold: a URL-quoted peer name, a progress figure, braces)
        return "<Sel %d peer=h%%3A80 100%% done {x} %%s>" % self.n

    def fileno(self):
        return -1

    def connectionLost(self, reason):
        if self.reactor is not None:
            self.reactor.callLater(30.0, lambda: None)

    def logPrefix(self):
        return "sel%d" % self.n


def py_handler(signum, frame):
    pass


def other_handler(signum, frame):
    pass


class Boom(BaseException):
    """Not an Exception (like KeyboardInterrupt / SystemExit raised by the function itself)."""


EXC = {"ValueError": ValueError, "KeyError": KeyError, "KeyboardInterrupt": KeyboardInterrupt, "Boom": Boom}

HANDLERS = {"dfl": signal.SIG_DFL, "ign": signal.SIG_IGN, "py": py_handler,
            "default_int": signal.default_int_handler}


SPECIAL = {"<ellipsis>": Ellipsis, "<notimplemented>": NotImplemented,
           # results with an __eq__ of their own: equal to everything / a comparison without a truth value
           "<anything>": programs.SPECIAL_VALUES["@any"], "<arraylike>": programs.SPECIAL_VALUES["@amb"]}
_OWN_EQ = (SPECIAL["<anything>"], SPECIAL["<arraylike>"])


def same_result(got, want):
    if got is None or got[0] != want[0]:
        return False
    if any(want[1] is o or got[1] is o for o in _OWN_EQ):
        return got[1] is want[1]
    return got[1] == want[1]


def val(v):
    """Values the function returns / its Deferred fires with; JSON cannot hold ... or NotImplemented."""
    return SPECIAL.get(v, v) if isinstance(v, str) else v


def expected(run):
    """(kind, payload) the statement prescribes, from the event order."""
    f, T, tau = run["f"], run["timeout"], run.get("stop_at")
    k = f["kind"]
    if k in ("ret", "fired"):
        first = ("value", val(f.get("v")))
        tf = 0.0
    elif k in ("raise", "failed"):
        first = ("raise", f["exc"])
        tf = 0.0
    elif k == "fire_at":
        first, tf = ("value", val(f.get("v"))), f["t"]
    elif k == "fail_at":
        first, tf = ("raise", f["exc"]), f["t"]
    elif k == "chain":
        first, tf = ("value", val(f.get("v"))), f["t"] + f["t2"]
    else:
        first, tf = None, float("inf")
    events = [(tf, 2, first)]
    events.append((T, 1, ("raise", "TimeoutError")))
    if tau == "startup":
        tau = -1.0      # requested while the reactor starts up, before the function has been called
    if tau is not None:
        events.append((tau, 3, ("raise", "NoResultError")))
    expected.tf = tf
    if tf == 0.0:
        return first, 0.0
    events.sort(key=lambda e: (e[0], e[1]))
    return events[0][2], events[0][0]


def x_history(ctx, case):
    from twisted.internet import defer
    from testtools.twistedsupport._spinner import (
        Spinner, TimeoutError, NoResultError, StaleJunkError, ReentryError)
    reactor = vreactor.make_reactor()
    saved = {s: signal.getsignal(s) for s in (signal.SIGINT, signal.SIGTERM)}
    pre = HANDLERS[case.get("handlers", "default_int")]
    detail = lambda: {"case": case}  # noqa: E731
    try:
        signal.signal(signal.SIGINT, pre)
        signal.signal(signal.SIGTERM, pre)
        if case.get("iterating"):
            class IteratingSpinner(Spinner):
                """What AsynchronousDeferredRunTestForBrokenTwisted uses: _clean() turns the reactor."""
                _OBLIGATORY_REACTOR_ITERATIONS = 2
            spinner = IteratingSpinner(reactor)
        else:
            spinner = Spinner(reactor)
        junk_pending = False
        nontrivial = False
        for idx, run in enumerate(case["runs"]):
            f = run["f"]
            if run.get("clear_junk"):
                spinner.clear_junk()
                junk_pending = False
            if run.get("handlers"):
                # the application installed other handlers since the previous run
                signal.signal(signal.SIGINT, HANDLERS[run["handlers"]])
                signal.signal(signal.SIGTERM, HANDLERS[run["handlers"]])
            if run.get("pre_patch_stop"):
                marker = []
                reactor.stop = lambda: marker.append(1)  # a caller-installed replacement
            stop_before = reactor.stop
            sig_before = {s: signal.getsignal(s) for s in (signal.SIGINT, signal.SIGTERM, signal.SIGCHLD)}
            reentry = {}

            def function(f=f, run=run, reentry=reentry):
                if run.get("reinstall_sigint"):
                    signal.signal(signal.SIGINT, other_handler)
                for t in run.get("junk", []):
                    reactor.callLater(t, lambda: None)
                for n in range(run.get("selectables", 0)):
                    sel = Sel(n)
                    sel.reactor = reactor
                    reactor.addReader(sel)
                if run.get("slow_work"):
                    def slow(amount=run["slow_work"][1]):
                        reactor.rightNow += amount       # slow synchronous work: nothing else runs meanwhile
                    reactor.callLater(run["slow_work"][0], slow)
                if isinstance(run.get("stop_at"), (int, float)):
                    def stopper(run=run):
                        # slow synchronous work (the clock moves on while nothing else gets to run),
                        # then the stop request
                        reactor.rightNow += run.get("slow_stop", 0)
                        reactor.stop()
                    reactor.callLater(run["stop_at"], stopper)
                if run.get("reenter"):
                    for attempt in range(2):
                        try:
                            # (the second attempt through ANOTHER Spinner on the same reactor - a helper that makes
                            # its own: it is the spinning that cannot be nested, whichever object is asked)
                            (spinner if attempt == 0 or run["reenter"] != "other" else Spinner(reactor)).run(
                                1, lambda: reentry.setdefault("ran", True))
                            reentry.setdefault("errors", []).append(None)
                        except BaseException as e:  # noqa
                            reentry.setdefault("errors", []).append(type(e).__name__)
                k = f["kind"]
                if k == "ret":
                    return val(f.get("v"))
                if k == "raise":
                    raise EXC[f["exc"]]("boom")
                if k == "fired":
                    return defer.succeed(val(f.get("v")))
                if k == "failed":
                    return defer.fail(EXC[f["exc"]]("boom"))
                d = defer.Deferred()
                if k == "fire_at":
                    reactor.callLater(f["t"], d.callback, val(f.get("v")))
                elif k == "fail_at":
                    reactor.callLater(f["t"], d.errback, EXC[f["exc"]]("boom"))
                elif k == "chain":
                    inner = defer.Deferred()
                    reactor.callLater(f["t"], d.callback, None)
                    d.addCallback(lambda _: inner)
                    reactor.callLater(f["t"] + f["t2"], inner.callback, val(f.get("v")))
                return d

            got = None
            if run.get("stop_at") == "startup" and not junk_pending:
                # a start-up trigger registered earlier that looks reactor.stop up when it fires
                reactor.callWhenRunning(lambda: reactor.stop())
            # the function may be any callable: a plain function, a functools.partial, an instance with __call__
            given = function
            if run.get("callable_as") == "partial":
                import functools
                given = functools.partial(function)
            elif run.get("callable_as") == "instance":
                class Callable:
                    def __call__(self):
                        return function()
                given = Callable()
            import threading as _threading
            old_name = _threading.current_thread().name
            if run.get("renamed_main"):
                _threading.current_thread().name = "tvm-main"       # an application that names its threads
            try:
                got = ("value", spinner.run(run["timeout"], given))
            except BaseException as e:  # noqa - that is the observation
                got = ("raise", type(e).__name__)
            finally:
                _threading.current_thread().name = old_name
                # ---- process restored, whatever happened --------------------------------------
                ctx.check(not reactor.running and not reactor.getDelayedCalls()
                          and not reactor.getReaders() and not reactor.getWriters(),
                          "after.reactor-not-running-and-empty",
                          lambda: {"run": idx, "running": reactor.running,
                                   "calls": [str(c) for c in reactor.getDelayedCalls()],
                                   "readers": len(reactor.getReaders()), "got": got, **detail()})
                ctx.check(reactor.stop == stop_before, "after.reactor.stop-restored",
                          lambda: {"run": idx, "stop": repr(reactor.stop), "before": repr(stop_before), **detail()})
                sig_after = {s: signal.getsignal(s) for s in sig_before}
                ctx.check(sig_after == sig_before, "after.signal-handlers-restored",
                          lambda: {"run": idx, "after": {int(k2): repr(v) for k2, v in sig_after.items()},
                                   "before": {int(k2): repr(v) for k2, v in sig_before.items()}, **detail()})
            if run.get("pre_patch_stop"):
                reactor.__dict__.pop("stop", None)
            # ---- result ---------------------------------------------------------------------------
            if junk_pending:
                ctx.check(got == ("raise", "StaleJunkError"), "junk.reported-and-refused-until-cleared",
                          lambda: {"run": idx, "got": got, **detail()})
                continue
            want, t_end = expected(run)
            if f["kind"] in ("fire_at", "fail_at", "never", "chain") or run.get("stop_at") is not None:
                nontrivial = True
            name = {"TimeoutError": "timeout-raises-TimeoutError",
                    "NoResultError": "stopped-first-raises-NoResultError"}.get(want[1] if want[0] == "raise" else None,
                                                                               "result==function's-own")
            ctx.check(same_result(got, want), name, lambda: {"run": idx, "got": repr(got), "want": repr(want), **detail()})
            if idx > 0:
                ctx.check(got == want, "reuse.no-stale-result", lambda: {"run": idx, "got": got, "want": want, **detail()})
            if run.get("reenter"):
                ctx.check(reentry.get("errors") == ["ReentryError", "ReentryError"] and "ran" not in reentry,
                          "reentry.refused", lambda: {"run": idx, "reentry": reentry, **detail()})
            # ---- junk accounting -------------------------------------------------------------------
            horizon = t_end
            stopped = want == ("raise", "NoResultError")
            if stopped and case.get("iterating") and run.get("slow_stop"):
                horizon = t_end + run["slow_stop"]   # _clean()'s reactor iterations run what is overdue by then
            sw = run.get("slow_work")
            if sw and sw[0] < t_end:
                # everything that had become due by the end of the slow work ran in the same reactor pass
                # (in time order) as the deciding event
                horizon = max(horizon, sw[0] + sw[1])
            leftovers = sum(1 for t in run.get("junk", []) if t > horizon) + run.get("selectables", 0)
            if sw and sw[0] > t_end:
                leftovers += 1
            if stopped and run["timeout"] > horizon and not (horizon > t_end and expected.tf <= horizon):
                # the timeout call itself is still pending (unless the function's Deferred completed
                # during the clean-up iterations, which cancels it)
                leftovers += 1
            if f["kind"] in ("fire_at", "fail_at") and f["t"] > horizon:
                leftovers += 1
            if f["kind"] == "chain":
                leftovers += (1 if f["t"] > horizon else 0) + (1 if f["t"] + f["t2"] > horizon else 0)
            if isinstance(run.get("stop_at"), (int, float)) and run["stop_at"] > max(t_end, horizon if sw else t_end):
                leftovers += 1
            junk = spinner.get_junk()
            ctx.check(bool(junk) == bool(leftovers), "junk.reported-and-refused-until-cleared",
                      lambda: {"run": idx, "junk": [str(j) for j in junk], "expected leftovers": leftovers, **detail()})
            # every selectable the run left registered is reported (each one, not just the first found)
            sels = sum(1 for j in junk if isinstance(j, Sel))
            ctx.check(sels == run.get("selectables", 0), "junk.reported-and-refused-until-cleared",
                      lambda: {"run": idx, "selectables left by the function": run.get("selectables", 0),
                               "selectables reported as junk": sels, **detail()})
            junk_pending = bool(junk)
        return nontrivial
    finally:
        for s, h in saved.items():
            signal.signal(s, h)


REAL_DRIVER = r'''
import json, os, signal, sys
sys.path.insert(0, sys.argv[1])
from twisted.internet import reactor, defer
from testtools.twistedsupport._spinner import Spinner
out = []
def snap():
    return {s: repr(signal.getsignal(getattr(signal, s))) for s in ("SIGINT", "SIGTERM", "SIGCHLD")}
def one(name, timeout, fn, new_spinner=True, state={}):
    if new_spinner or "s" not in state:
        state["s"] = Spinner(reactor)
    s = state["s"]
    before, stop_before = snap(), reactor.stop
    try:
        r = ("value", s.run(timeout, fn))
    except BaseException as e:
        r = ("raise", type(e).__name__)
    junk = len(s.clear_junk())
    out.append({"name": name, "result": list(r), "signals_ok": snap() == before,
                "stop_ok": reactor.stop == stop_before, "running": bool(reactor.running),
                "pending": len(reactor.getDelayedCalls()), "junk": junk})
def later(t, v=None, exc=None):
    def fn():
        d = defer.Deferred()
        if exc: reactor.callLater(t, d.errback, exc("boom"))
        else: reactor.callLater(t, d.callback, v)
        return d
    return fn
signal.signal(signal.SIGINT, signal.default_int_handler)
one("sync", 1, lambda: 7)
one("raise", 1, lambda: 1 / 0)
one("fire-before-timeout", 2.0, later(0.05, 42))
one("fail-before-timeout", 2.0, later(0.05, exc=ValueError))
one("timeout", 0.15, later(5.0, 1))
one("reuse-after-timeout", 1, lambda: 8, new_spinner=False)
def with_junk():
    reactor.callLater(30, lambda: None)
    return defer.succeed(3)
one("junk", 1, with_junk)
def sigint():
    reactor.callLater(0.05, os.kill, os.getpid(), signal.SIGINT)
    return defer.Deferred()
one("real-sigint", 3.0, sigint)
one("after-sigint", 1, lambda: 9)
def h(*a): pass
signal.signal(signal.SIGTERM, h)
one("custom-sigterm-handler-kept", 1, later(0.02, 5))
print(json.dumps(out))
'''

REAL_EXPECT = {
    "sync": ["value", 7], "raise": ["raise", "ZeroDivisionError"], "fire-before-timeout": ["value", 42],
    "fail-before-timeout": ["raise", "ValueError"], "timeout": ["raise", "TimeoutError"],
    "reuse-after-timeout": ["value", 8], "junk": ["value", 3], "real-sigint": ["raise", "NoResultError"],
    "after-sigint": ["value", 9], "custom-sigterm-handler-kept": ["value", 5],
}


def x_real(ctx, case):
    r = subprocess.run([sys.executable, "-c", REAL_DRIVER, core.REPO_ROOT], capture_output=True, text=True,
                       timeout=120, preexec_fn=lambda: signal.signal(signal.SIGINT, signal.SIG_DFL))
    try:
        rows = json.loads(r.stdout.strip().splitlines()[-1])
    except Exception:
        ctx.inconclusive.append("real-reactor driver produced no result: rc=%s %s" % (r.returncode, r.stderr[-300:]))
        return False
    for row in rows:
        ok = (row["result"] == REAL_EXPECT[row["name"]] and row["signals_ok"] and row["stop_ok"]
              and not row["running"] and row["pending"] == 0)
        ctx.check(ok, "real-reactor.agrees", lambda: {"row": row, "want": REAL_EXPECT[row["name"]]})
    return True


SUBCHECKS = {"history": x_history, "real": x_real}
NO_SHARDS = False


def grid_runs():
    kinds = [{"kind": "ret", "v": 1}, {"kind": "raise", "exc": "ValueError"}, {"kind": "raise", "exc": "Boom"},
             {"kind": "raise", "exc": "KeyboardInterrupt"}, {"kind": "failed", "exc": "Boom"}, {"kind": "fired", "v": None},
             {"kind": "failed", "exc": "KeyError"}, {"kind": "never"}]
    for t in (0.5, 1.5, 2.5):
        kinds.append({"kind": "fire_at", "t": t, "v": "x"})
        kinds.append({"kind": "fail_at", "t": t, "exc": "ValueError"})
    kinds.append({"kind": "chain", "t": 0.5, "t2": 0.25, "v": [1]})
    # values a sentinel-based implementation could mistake for "no result yet"
    for v in (None, 0, False, "", "<ellipsis>", "<notimplemented>", "<anything>", "<arraylike>"):
        kinds.append({"kind": "ret", "v": v})
        kinds.append({"kind": "fire_at", "t": 0.5, "v": v})
    kinds.append({"kind": "fire_at", "t": 1.0, "v": "tie"})     # exactly at the timeout 1.0
    kinds.append({"kind": "fail_at", "t": 2.0, "exc": "KeyError"})  # exactly at the timeout 2.0
    for f in kinds:
        for T in (1.0, 2.0, 0.0):
            for tau in (None, 0.25, 0.75, 1.25, 1.75, 2.25, 3.0, "startup"):
                if T == 0.0 and tau not in (None, 0.25):
                    continue        # a timeout of 0: whatever is not finished at once times out
                if tau is not None and f["kind"] in ("fire_at", "fail_at") and f["t"] in (1.0, 2.0) and tau in (T,):
                    continue
                yield {"f": f, "timeout": T, "stop_at": tau}


def run(ctx):
    rng = ctx.rng
    n = 0
    variants = [{}, {"junk": [0.1, 9.0], "selectables": 1}, {"reinstall_sigint": True}, {"reenter": True},
                {"pre_patch_stop": True}, {"junk": [50.0, 60.0, 70.0], "selectables": 2, "reinstall_sigint": True},
                {"reenter": "other"}]
    for base in grid_runs():
        for vi, v in enumerate(variants):
            if ctx.quick and (n + ctx.seed) % 2 and vi not in (0, 4):
                n += 1
                continue
            if not ctx.mine():
                continue
            n += 1
            run1 = dict(base, **v)
            if n % 3:
                run1["callable_as"] = ["partial", "instance"][n % 2]      # not a plain function
            if n % 4 == 1:
                run1["renamed_main"] = True
            ctx.execute("history", {"runs": [run1], "handlers": ["default_int", "py", "ign", "dfl"][n % 4]},
                        sample=(n % 211 == 0))
    ctx.note_space("function kind (29) x timeout (3, incl. 0) x stop instant (8, incl. during reactor start-up) x 6 variants (junk, selectables, handler "
                   "re-installation, re-entry, pre-patched reactor.stop), fresh Spinner", n, not ctx.quick)
    # reuse histories: run A, (clear junk or not), run B
    firsts = [r for r in grid_runs()][::5]
    n = 0
    for a in firsts:
        for b in ({"f": {"kind": "ret", "v": 42}, "timeout": 1.0}, {"f": {"kind": "fire_at", "t": 0.5, "v": 43}, "timeout": 1.0},
                  {"f": {"kind": "fail_at", "t": 0.5, "exc": "KeyError"}, "timeout": 1.0}):
            for clear in (True, False):
                if not ctx.mine():
                    continue
                n += 1
                ctx.execute("history", {"runs": [dict(a), dict(b, clear_junk=clear, handlers="py"),
                                                 dict(b, clear_junk=True, handlers="ign")]},
                            sample=(n % 97 == 0))
    ctx.note_space("two/three runs on one Spinner: every 5th grid run followed by 3 second runs x clear_junk on/off", n)
    # a Spinner whose _clean() iterates the reactor, interrupted after slow synchronous work (so that
    # overdue calls - the timeout, the function's own Deferred - run during the clean-up), then reused
    n = 0
    slow_fs = [{"kind": "never"}, {"kind": "fire_at", "t": 1.5, "v": "late"}, {"kind": "fail_at", "t": 0.5, "exc": "KeyError"},
               {"kind": "fail_at", "t": 1.5, "exc": "ValueError"}, {"kind": "chain", "t": 0.5, "t2": 1.5, "v": [2]}]
    for f in slow_fs:
        for tau, slow in ((0.25, 0.0), (0.25, 1.0), (0.25, 5.0), (0.75, 0.5), (0.75, 5.0)):
            for iterating in (True, False):
                for b in ({"f": {"kind": "ret", "v": 42}, "timeout": 1.0},
                          {"f": {"kind": "fire_at", "t": 0.5, "v": 43}, "timeout": 1.0}):
                    if not ctx.mine():
                        continue
                    n += 1
                    ctx.execute("history", {"iterating": iterating,
                                            "runs": [{"f": f, "timeout": 1.0, "stop_at": tau, "slow_stop": slow},
                                                     dict(b, clear_junk=True), dict(b, clear_junk=True)]})
    ctx.note_space("iterating / plain Spinner interrupted after slow synchronous work (5 functions x 5 (instant, "
                   "duration) pairs), then reused twice", n)
    # slow synchronous work that straddles the timeout and the instant the Deferred fires: both calls
    # become due in one reactor pass and run in time order - the earlier one decides
    n = 0
    for f in ({"kind": "fire_at", "t": 1.5, "v": "late"}, {"kind": "fail_at", "t": 1.5, "exc": "KeyError"},
              {"kind": "fire_at", "t": 0.5, "v": "early"}, {"kind": "chain", "t": 0.5, "t2": 1.0, "v": [3]}):
        for T in (1.0, 2.0):
            for sw in ((0.25, 0.5), (0.25, 3.0), (0.75, 3.0)):
                for iterating in (False, True):
                    if ctx.mine():
                        n += 1
                        ctx.execute("history", {"iterating": iterating, "runs": [
                            {"f": f, "timeout": T, "slow_work": list(sw)},
                            {"f": {"kind": "ret", "v": 42}, "timeout": 1.0, "clear_junk": True}]})
    ctx.note_space("slow synchronous work straddling timeout and firing instant: 4 functions x 2 timeouts x 3 x "
                   "plain/iterating Spinner, then a second run", n)
    ctx.notes["random_cases"] = True
    grid = list(grid_runs())
    for i in range(ctx.scale(8000, 300000)):
        if ctx.out_of_time():
            break
        runs = []
        for _ in range(rng.randint(1, 3)):
            r = dict(rng.choice(grid))
            r.update(rng.choice(variants))
            if rng.random() < 0.7:
                r["clear_junk"] = True
            if rng.random() < 0.4:
                r["handlers"] = rng.choice(list(HANDLERS))
            if isinstance(r.get("stop_at"), float) and rng.random() < 0.3:
                r["slow_stop"] = rng.choice([0.5, 1.0, 5.0])
            runs.append(r)
        ctx.execute("history", {"runs": runs, "handlers": rng.choice(list(HANDLERS)),
                                "iterating": rng.random() < 0.3})
    if ctx.shard == 0:
        ctx.execute("real", {})
