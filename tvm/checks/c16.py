"""C16 - Content is lossless and independent of chunking."""

import io
import itertools
import json
import os
import shutil
import string
import tempfile

PROPERTY = "C16"
LEVEL = "exploration"
RULE = (
    "cases are (sub-check, JSON description): decode = text x charset x every/random cut of the "
    "encoded bytes into chunks (+ inserted empty chunks) and arbitrary byte strings under each "
    "charset; roundtrip = text_content/json_content inputs; stream = data length x chunk_size x "
    "seek offset x whence x buffer_now on an instrumented stream and on a real file; eq = pairs of "
    "contents (type, bytes, chunking); ctype = content types with 0..3 parameters from the "
    "quote-free domain; snapshot = gather_details over mutable sources.  Distinct = distinct "
    "canonical JSON of the case; non-trivial = more than one chunk / non-empty data / at least "
    "one parameter / a source that is mutated afterwards."
)
REQUIRED = {
    "mon:stream.declared-type-kept": 500,
    "mon:decode.as_text==whole.decode": 200,
    "mon:stream.bytes==data[offset:]": 200,
    "mon:stream.lazy": 100,
    "mon:ctype.roundtrip": 100,
    "mon:ctype.parameters-not-shared": 100,
    "mon:stream.each-evaluation-from-the-offset": 100,
    "mon:decode.reading-text-leaves-the-declared-type-alone": 200,
    "mon:eq.agrees": 100,
    "mon:snapshot.unaffected": 20,
    "mon:roundtrip.text": 50,
    "mon:decode.independent-of-other-contents": 500,
}
ASSUMPTIONS = [
    "whole-string bytes.decode(charset) of the Python standard library is the reference for as_text()",
    "io.BytesIO seek()/read() is the reference for 'the bytes from the requested offset to end of file'",
    "MIME parameter values avoid the quoting characters \" \\ CR LF and the encoded-word opener '=?'; "
    "charset values contain no comma (the property's 'free of quote characters' domain)",
    "lone surrogates are excluded from texts (not encodable)",
]

CHARSETS = ["utf8", "utf-16", "utf-16-le", "utf-32", "latin-1", None, "gb18030", "ascii",
            # decoders that hold text back until the end of the input (BOM sniffing, shift sequences)
            "utf-8-sig", "utf-7"]
POOL = ["a", "Z", "0", " ", "\n", "\x00", "\x7f", "\xe9", "\xff", "́", "€", "☃",
        "퟿", "", "﻿", "￿", "\U00010000", "\U0001f600", "\U0010ffff", "'", '"', "\\"]


def _ct(charset, primary="text"):
    from testtools.content_type import ContentType
    return ContentType(primary, "plain", {"charset": charset} if charset else {})


def _split(b, cuts, empties):
    parts, s = [], 0
    for c in sorted(set(cuts)):
        if 0 < c < len(b):
            parts.append(b[s:c])
            s = c
    parts.append(b[s:])
    for e in sorted(empties, reverse=True):
        parts.insert(min(e, len(parts)), b"")
    return parts


def x_decode(ctx, case):
    """as_text()/iter_text() == whole.decode(charset) for every chunking."""
    from testtools.content import Content
    charset = case["charset"]
    data = bytes.fromhex(case["hex"])
    parts = _split(data, case["cuts"], case["empties"])
    codec = charset or "ISO-8859-1"
    try:
        expected = data.decode(codec)
        exp_err = None
    except UnicodeError as e:
        expected, exp_err = None, e
    c = Content(_ct(charset), lambda: list(parts))
    twin = Content(_ct(charset), lambda: list(parts))      # built identically, never read as text
    rendered_before = repr(c.content_type)
    ctx.check(b"".join(c.iter_bytes()) == data, "decode.bytes==concatenation",
              lambda: {"parts": parts})
    for how, fn in (("as_text", c.as_text), ("iter_text", lambda: "".join(c.iter_text()))):
        try:
            got, err = fn(), None
        except UnicodeError as e:
            got, err = None, e
        if exp_err is not None:
            ctx.check(err is not None, "decode.raises-iff-whole-raises",
                      lambda: {"how": how, "got": got, "parts": parts})
        else:
            ctx.check(err is None and got == expected, "decode.as_text==whole.decode",
                      lambda: {"how": how, "got": got, "expected": expected, "err": repr(err),
                               "parts": parts, "charset": charset})
    # a lazy source read as text twice, the source having grown in between (a log buffer): each evaluation
    # decodes what the source yields THEN
    try:
        expected2 = (data + data).decode(codec)
    except UnicodeError:
        expected2 = None
    if exp_err is None and expected2 is not None:
        box = [list(parts)]
        lazy = Content(_ct(charset), lambda: list(box[0]))
        try:
            first = lazy.as_text()
            box[0] = list(parts) + list(parts)
            second, third = lazy.as_text(), "".join(lazy.iter_text())
        except UnicodeError as e:
            first = second = third = "raised %r" % (e,)
        # a subclass that overrides iter_bytes() (here: it serialises its source twice over): its text is the text
        # of the bytes IT yields
        class Twice(Content):
            def iter_bytes(self):
                yield from super().iter_bytes()
                yield from super().iter_bytes()
        sub = Twice(_ct(charset), lambda: list(parts))
        try:
            sub_text, sub_iter = sub.as_text(), "".join(sub.iter_text())
        except UnicodeError as e:
            sub_text = sub_iter = "raised %r" % (e,)
        ctx.check(sub_text == expected2 and sub_iter == expected2 and b"".join(sub.iter_bytes()) == data + data,
                  "decode.as_text==whole.decode",
                  lambda: {"a Content subclass overriding iter_bytes": True, "as_text()": sub_text, "iter_text": sub_iter,
                           "the bytes it yields decode to": expected2, "charset": charset})
        ctx.check(first == expected and second == expected2 and third == expected2, "decode.as_text==whole.decode",
                  lambda: {"first as_text()": first, "after the source doubled": second, "iter_text": third,
                           "expected then": expected2, "charset": charset})
    ctx.check(repr(c.content_type) == rendered_before and c == twin
              and c.content_type.parameters == ({"charset": charset} if charset else {}),
              "decode.reading-text-leaves-the-declared-type-alone",
              lambda: {"type before": rendered_before, "after": repr(c.content_type),
                       "equal to an identically built content": c == twin})
    return len(parts) > 1 or len(data) > 0


def x_interleave(ctx, case):
    """Several text contents decoded at the same time / abandoned half way do not disturb each other."""
    from testtools.content import Content
    contents, wants = [], []
    for d in case["contents"]:
        data = bytes.fromhex(d["hex"])
        parts = _split(data, d["cuts"], [])
        contents.append(Content(_ct(d["charset"]), lambda p=parts: list(p)))
        wants.append(data.decode(d["charset"] or "ISO-8859-1"))
    its = [c.iter_text() for c in contents]
    outs = [[] for _ in contents]
    live = list(range(len(its)))
    abandon = set(case.get("abandon", []))
    steps = 0
    err = None
    try:
        while live:
            for i in list(live):
                if i in abandon and outs[i]:
                    live.remove(i)  # abandoned after its first piece
                    continue
                try:
                    outs[i].append(next(its[i]))
                except StopIteration:
                    live.remove(i)
            steps += 1
        # after the abandoned ones, decode every content once more from scratch
        again = [c.as_text() for c in contents]
    except Exception as e:  # noqa
        err = e
        again = None
    for i, w in enumerate(wants):
        if i not in abandon:
            ctx.check(err is None and "".join(outs[i]) == w, "decode.independent-of-other-contents",
                      lambda: {"i": i, "got": outs[i], "want": w, "error": repr(err), "case": case})
    ctx.check(again == wants, "decode.independent-of-other-contents",
              lambda: {"again": again, "want": wants, "error": repr(err), "case": case})
    return True


def x_roundtrip(ctx, case):
    from testtools.content import text_content, json_content
    if case["kind"] == "text":
        t = case["text"]
        c = text_content(t)
        try:
            got = c.as_text()
        except Exception as e:  # noqa
            got = "as_text() raised %r" % (e,)
        ctx.check(got == t, "roundtrip.text", lambda: {"got": got})
        if got != t:
            return True
        ctx.check(b"".join(c.iter_bytes()) == t.encode("utf8"), "roundtrip.text-bytes")
        if t and "\x00" not in t and not any(0xD800 <= ord(ch) <= 0xDFFF for ch in t):
            # the same text as the REASON of a plain unittest-style skip, on its way through the stream protocol: the
            # consumer's 'reason' content decodes, in the charset it declares, to the text that was given
            import testtools
            got_dicts = []
            e2s = testtools.ExtendedToStreamDecorator(testtools.StreamToDict(got_dicts.append))
            try:
                e2s.startTestRun()
                ph = testtools.PlaceHolder("skipped")
                e2s.startTest(ph)
                e2s.addSkip(ph, t)
                e2s.stopTest(ph)
                e2s.stopTestRun()
                back = got_dicts[0]["details"]["reason"].as_text()
            except Exception as e:  # noqa
                back = "reading the reason raised %r" % (e,)
            ctx.check(back == t, "roundtrip.text", lambda: {"a skip reason through ExtendedToStreamDecorator": back})
        ctx.check("".join(c.iter_text()) == t, "roundtrip.iter_text")
        # evaluating twice yields the same
        ctx.check(b"".join(c.iter_bytes()) == b"".join(c.iter_bytes()), "roundtrip.repeatable")
    else:
        import copy
        data = case["data"]
        given = copy.deepcopy(data)
        c = json_content(given)
        # the caller goes on using (and changing) its object; the content is what was given
        if isinstance(given, list):
            given.append("changed-later")
        elif isinstance(given, dict):
            given["changed-later"] = 1
        raw = b"".join(c.iter_bytes())
        def same(a, b):
            # (1, 1.0 and True are equal and hash alike - and are three different JSON documents; so are 0.0 and -0.0)
            if type(a) is not type(b):
                return False
            if isinstance(a, float):
                return repr(a) == repr(b)
            if isinstance(a, list):
                return len(a) == len(b) and all(same(x, y) for x, y in zip(a, b))
            if isinstance(a, dict):
                return a.keys() == b.keys() and all(same(a[k], b[k]) for k in a)
            return a == b
        try:
            back = json.loads(raw.decode("utf8"))
            ok = same(back, data)
        except Exception as e:  # noqa
            ok = False
        ctx.check(ok, "roundtrip.json", lambda: {"raw": raw, "given": repr(data)})
        ctx.check(c.content_type.type == "application" and c.content_type.subtype == "json",
                  "roundtrip.json-type")
    return True


class SpyStream(io.BytesIO):
    """Instrumented stream; ``short`` makes read(n) return fewer than n bytes before EOF, as raw
    streams (pipes, sockets, io.RawIOBase) legitimately do."""

    def __init__(self, data, short=None):
        super().__init__(data)
        self.ops = []
        self.short = list(short or [])

    def read(self, n=-1):
        self.ops.append(("read", n))
        if self.short and n and n > 1:
            n = max(1, min(n, self.short.pop(0)))
        return super().read(n)

    def seek(self, off, whence=0):
        self.ops.append(("seek", off, whence))
        return super().seek(off, whence)


def x_stream(ctx, case):
    from testtools.content import content_from_stream, content_from_file
    from testtools.content_type import ContentType
    data = bytes.fromhex(case["hex"])
    cs, off, wh, bn = case["chunk"], case["offset"], case["whence"], case["buffer_now"]
    pos = 0 if off is None else (off if wh == 0 else len(data) + off)
    if pos < 0:
        ctx.count("stream.excluded-invalid-seek")  # seeking before the start is an OS error
        return False
    ref = io.BytesIO(data)
    if off is not None:
        ref.seek(off, wh)
    expected = ref.read()
    assert expected == data[pos:]
    ct = ContentType("application", "octet-stream")
    kw = {} if off is None else {"seek_offset": off, "seek_whence": wh}
    if wh == 0 and case.get("whence_omitted"):
        kw.pop("seek_whence", None)          # "from the start" is the default
    # -- stream
    s = SpyStream(data, case.get("short"))
    c = content_from_stream(s, ct, cs, buffer_now=bn, **kw)
    ops_at_construction = list(s.ops)
    if bn:
        ctx.check(any(o[0] == "read" for o in ops_at_construction), "stream.buffer_now-reads-now",
                  lambda: {"ops": ops_at_construction})
    else:
        ctx.check(not ops_at_construction, "stream.lazy", lambda: {"ops": ops_at_construction})
        it = c.iter_bytes()
        ctx.check(not s.ops, "stream.lazy", lambda: {"ops after iter_bytes()": s.ops})
        chunks = list(it)
        if off is not None:
            # every serialisation seeks to the requested offset again: ==, as_text, two detail-gathering
            # rounds all read the same bytes
            again = b"".join(c.iter_bytes())
            ctx.check(again == expected, "stream.each-evaluation-from-the-offset",
                      lambda: {"second evaluation": again, "expected": expected, "ops": s.ops})
            part = c.iter_bytes()
            next(iter(part), None)            # an abandoned partial read ...
            third = b"".join(c.iter_bytes())  # ... does not shorten the next one
            ctx.check(third == expected, "stream.each-evaluation-from-the-offset",
                      lambda: {"evaluation after an abandoned partial read": third, "expected": expected})
        else:
            ctx.count("mon:stream.each-evaluation-from-the-offset")
    if bn:
        n_ops = len(s.ops)
        chunks = list(c.iter_bytes())
        ctx.check(len(s.ops) == n_ops, "stream.buffered-no-late-read", lambda: {"ops": s.ops})
        again = list(c.iter_bytes())
        ctx.check(again == chunks, "stream.buffered-repeatable")
    ctx.check(b"".join(chunks) == expected, "stream.bytes==data[offset:]",
              lambda: {"chunks": chunks, "expected": expected})
    ctx.check(all(0 < len(x) <= cs for x in chunks), "stream.chunks-nonempty-and-bounded",
              lambda: {"chunks": chunks, "chunk_size": cs})
    ctx.check(all(o[1] == cs for o in s.ops if o[0] == "read"), "stream.read-size==chunk_size",
              lambda: {"ops": s.ops})
    # -- the declared type is kept; none given means UTF-8 text/plain (as documented)
    from testtools.content import content_from_reader
    from testtools.content_type import UTF8_TEXT
    for label, made in (("stream", lambda t: content_from_stream(io.BytesIO(data), t, cs, buffer_now=bn)),
                        ("file", lambda t: content_from_file(__file__, t, cs, buffer_now=bn)),
                        ("reader", lambda t: content_from_reader(lambda: [data], t, bn))):
        got_ct, got_default = made(ct).content_type, made(None).content_type
        ctx.check(got_ct == ct and repr(got_ct) == repr(ct) and got_default == UTF8_TEXT
                  and repr(got_default) == 'text/plain; charset="utf8"', "stream.declared-type-kept",
                  lambda: {"made from": label, "given": repr(ct), "got": repr(got_ct), "none given": repr(got_default)})
    # -- real file, created late for the lazy mode
    d = tempfile.mkdtemp(prefix="tvm-c16-")
    try:
        p = os.path.join(d, "f.bin")
        if bn:
            with open(p, "wb") as f:
                f.write(data)
            c = content_from_file(p, ct, cs, True, **kw)
            with open(p, "wb") as f:
                f.write(b"CHANGED-AFTER-BUFFERING")
            chunks = list(c.iter_bytes())
            os.unlink(p)
            ctx.check(list(c.iter_bytes()) == chunks, "stream.buffered-repeatable")
        else:
            try:
                c = content_from_file(p, ct, cs, False, **kw)
                it = c.iter_bytes()
                lazy_ok = True
            except OSError:
                lazy_ok = False
            ctx.check(lazy_ok, "stream.lazy", "content_from_file opened the file before iteration")
            if not lazy_ok:
                return True
            with open(p, "wb") as f:
                f.write(data)
            chunks = list(it)
            # lazy means "read when evaluated": a later evaluation sees the file as it is then
            data2 = data[::-1] + b"!"
            with open(p, "wb") as f:
                f.write(data2)
            pos2 = 0 if off is None else (off if wh == 0 else len(data2) + off)
            if pos2 >= 0:
                again = b"".join(c.iter_bytes())
                ctx.check(again == data2[pos2:], "stream.lazy",
                          lambda: {"second evaluation": again, "file now": data2[pos2:]})
        ctx.check(b"".join(chunks) == expected, "stream.bytes==data[offset:]",
                  lambda: {"file": True, "chunks": chunks, "expected": expected})
        ctx.check(all(0 < len(x) <= cs for x in chunks), "stream.chunks-nonempty-and-bounded",
                  lambda: {"file": True, "chunks": chunks, "chunk_size": cs})
        # -- the convenience wrapper: attach_file(detailed, path, name, content_type, chunk_size, buffer_now)
        from testtools.content import attach_file

        class Detailed:
            def __init__(self):
                self.details = {}

            def addDetail(self, name, content):
                self.details[name] = content
        with open(p, "wb") as f:
            f.write(data)
        holder = Detailed()
        attach_file(holder, p, "attached", ct, cs, bn)
        attach_file(holder, p, content_type=ct, chunk_size=cs, buffer_now=bn)      # the name defaults to the file's
        for name in ("attached", os.path.basename(p)):
            c2 = holder.details.get(name)
            got = list(c2.iter_bytes()) if c2 is not None else None
            ctx.check(got is not None and b"".join(got) == data and all(0 < len(x) <= cs for x in got)
                      and c2.content_type == ct, "stream.chunks-nonempty-and-bounded",
                      lambda: {"attach_file": name, "chunks": got, "chunk_size": cs, "buffer_now": bn})
    finally:
        shutil.rmtree(d, ignore_errors=True)
    return len(data) > 0


def x_eq(ctx, case):
    from testtools.content import Content
    from testtools.content_type import ContentType

    class LogContent(Content):
        """A Content subclass (like TracebackContent / StackLinesContent): still equal by type and bytes."""

    def build(d, cls=Content):
        ct = ContentType(d["type"], d["sub"], dict(d["params"]))
        data = bytes.fromhex(d["hex"])
        parts = _split(data, d["cuts"], d["empties"])
        return cls(ct, lambda: list(parts)), (d["type"], d["sub"], dict(d["params"]), data)

    a, ka = build(case["a"], LogContent if case.get("subclass") in ("a", "both") else Content)
    b, kb = build(case["b"], LogContent if case.get("subclass") == "both" else Content)
    want = ka == kb
    ctx.check((a == b) == want, "eq.agrees", lambda: {"a==b": a == b, "want": want})
    ctx.check((b == a) == want, "eq.agrees", lambda: {"b==a": b == a, "want": want})
    ctx.check(a == a, "eq.reflexive")
    # equality is about the bytes the contents yield NOW: a lazy content whose source has moved on since it
    # was last compared (or shown) is compared by what it yields now
    source = [bytes.fromhex(case["a"]["hex"])]
    lazy = Content(ContentType(case["a"]["type"], case["a"]["sub"], dict(case["a"]["params"])), lambda: list(source))
    first = (lazy == a, repr(lazy))
    source.append(b"-appended-later")
    now = b"".join(lazy.iter_bytes())
    fixed = Content(ContentType(case["a"]["type"], case["a"]["sub"], dict(case["a"]["params"])), lambda: [now])
    ctx.check(first[0] is True and lazy == fixed and not (lazy == a) and fixed == lazy, "eq.agrees",
              lambda: {"lazy content": "compared equal, then its source grew", "equal to its old bytes still": lazy == a,
                       "equal to its current bytes": lazy == fixed})
    return True


def x_ctype(ctx, case):
    from testtools.content_type import ContentType
    from testtools.testresult.real import _make_content_type
    ct = ContentType(case["type"], case["sub"], dict(case["params"]))
    rendered = repr(ct)
    try:
        back = _make_content_type(rendered)
    except Exception as e:  # noqa
        ctx.check(False, "ctype.roundtrip", {"rendered": rendered, "error": repr(e)})
        return True
    ctx.check(back == ct and back.type == ct.type and back.subtype == ct.subtype
              and back.parameters == ct.parameters, "ctype.roundtrip",
              lambda: {"rendered": rendered, "back": [back.type, back.subtype, back.parameters]})
    # rendering is deterministic and independent of parameter insertion order
    rev = ContentType(case["type"], case["sub"], dict(reversed(list(case["params"].items()))))
    ctx.check(repr(rev) == rendered, "ctype.render-order-independent",
              lambda: {"a": rendered, "b": repr(rev)})
    # ... and of WHEN the parameters were filled in: the public `parameters` dict completed after construction (a
    # charset that becomes known later) renders like one given to the constructor
    late = ContentType(case["type"], case["sub"])
    first = repr(late)
    late.parameters.update(case["params"])
    ctx.check(repr(late) == rendered and first == repr(ContentType(case["type"], case["sub"])), "ctype.roundtrip",
              lambda: {"parameters filled in after construction": case["params"], "rendered": repr(late), "want": rendered})
    # the public `parameters` of one ContentType are its own: filling them in does not leak into types
    # created without parameters (or into the caller's dict being shared between two types)
    one = ContentType(case["type"], case["sub"])
    one.parameters["charset"] = "utf8"
    one.parameters["header"] = "present"
    others = [ContentType("text", "x-log"), ContentType("text", "x-log", None), ContentType("text", "x-log", {})]
    from testtools.content import Content, JSON
    leaks = [o.parameters for o in others if o.parameters] + ([JSON.parameters] if JSON.parameters else [])
    try:
        text = Content(others[0], lambda: [b"caf\xe9"]).as_text()
    except Exception as e:  # noqa
        text = repr(e)
    ctx.check(not leaks and text == "caf\xe9" and repr(others[0]) == "text/x-log", "ctype.parameters-not-shared",
              lambda: {"leaked": leaks, "charset-less text decoded as": text, "rendered": repr(others[0])})
    del one.parameters["charset"], one.parameters["header"]
    # ... nor do two attachments that arrive with the same MIME string share one ContentType object
    import testtools
    got = []
    s2d = testtools.StreamToDict(got.append)
    s2d.startTestRun()
    for tid in ("a", "b"):
        s2d.status(test_id=tid, file_name="f", file_bytes=b"x", mime_type=rendered)
        s2d.status(test_id=tid, test_status="success")
    s2d.stopTestRun()
    ct_a, ct_b = (d["details"]["f"].content_type for d in got)
    ct_a.parameters["x-edited"] = "1"
    again = _make_content_type(rendered)
    ctx.check("x-edited" not in ct_b.parameters and again == ct, "ctype.parameters-not-shared",
              lambda: {"mime string": rendered, "second attachment's parameters after editing the first's": ct_b.parameters,
                       "a later parse": [again.type, again.subtype, again.parameters]})
    return bool(case["params"])


def x_snapshot(ctx, case):
    """gather_details copies are snapshots, renamed on collision, never overwriting."""
    from testtools.content import Content
    from testtools.content_type import ContentType
    from testtools.testcase import gather_details
    cells = {}
    source = {}
    for name, hexes in case["source"].items():
        cells[name] = [bytes.fromhex(h) for h in hexes]
        # the callback hands out its own live list, which the test later changes in place
        source[name] = Content(ContentType("application", "octet-stream", {"n": name}),
                               (lambda n=name: cells[n]) if case.get("live", True) else
                               (lambda n=name: list(cells[n])))
    target = {}
    pre = {}
    for name in case["target"]:
        payload = ("pre-" + name).encode()
        pre[name] = payload
        target[name] = Content(ContentType("text", "plain"), lambda p=payload: [p])
    want_bytes = {n: b"".join(cells[n]) for n in cells}
    gather_details(source, target)
    # mutate the sources afterwards
    for name in cells:
        cells[name][:] = [b"MUTATED"]
    got = {n: b"".join(c.iter_bytes()) for n, c in target.items()}
    # every pre-existing entry intact
    ok_pre = all(got.get(n) == p for n, p in pre.items())
    ctx.check(ok_pre, "snapshot.no-overwrite", lambda: {"got": got, "pre": pre})
    # every source present exactly once (by its 'n' parameter), unaffected by mutation
    seen = {}
    for n, c in target.items():
        src = c.content_type.parameters.get("n")
        if src is not None:
            seen.setdefault(src, []).append(n)
    for src, data in want_bytes.items():
        names = seen.get(src, [])
        ctx.check(len(names) == 1, "snapshot.each-source-once", lambda: {"src": src, "names": names})
        if names:
            ctx.check(got[names[0]] == data, "snapshot.unaffected",
                      lambda: {"src": src, "got": got[names[0]], "want": data})
            ctx.check(names[0] == src or names[0].startswith(src + "-"), "snapshot.renamed-by-suffix",
                      lambda: {"src": src, "name": names[0]})
    ctx.check(len(target) == len(pre) + len(want_bytes), "snapshot.count",
              lambda: {"names": sorted(target)})
    return True


def x_snapshot_fixture(ctx, case):
    """The same through TestCase.useFixture, on each of its paths (the fixture sets up; its _setUp() fails; a fixture
    written against the older API fails in its own setUp()): what the outcome carries of the fixture's details is
    what they held when they were gathered, whatever the test does to the sources afterwards."""
    import re
    import fixtures
    import testtools
    from testtools.content import Content
    from testtools.content_type import ContentType
    from .. import recorders
    cells = {name: [bytes.fromhex(h) for h in hexes] for name, hexes in case["source"].items()}
    want_bytes = {n: b"".join(cells[n]) for n in cells}

    def fill(fx):
        for name in cells:
            fx.addDetail(name, Content(ContentType("application", "octet-stream", {"n": name}), lambda n=name: cells[n]))

    def mutate():
        for name in cells:
            cells[name][:] = [b"MUTATED"]
    how = case["how"]

    class New(fixtures.Fixture):
        def _setUp(self):
            fill(self)
            if how == "setup_fails":
                raise ValueError("_setUp broke")

    class Old(fixtures.Fixture):
        def setUp(self):
            super().setUp()
            fill(self)
            raise ValueError("setUp broke")
    pre = {name: ("pre-" + name).encode() for name in case["target"]}

    class T(testtools.TestCase):
        def test(self):
            for name, payload in pre.items():
                self.addDetail(name, Content(ContentType("text", "plain"), lambda p=payload: [p]))
            self.addCleanup(mutate)          # (registered first: runs after the fixture's details were gathered)
            try:
                self.useFixture(Old() if how == "old_setup_fails" else New())
            except ValueError:
                mutate()
                raise
    log = recorders.Log()
    T("test").run(recorders.ExtRecorder(log))
    outs = [e for e in log.events if e.name in recorders.OUTCOMES]
    if len(outs) != 1:
        ctx.check(False, "snapshot.each-source-once", {"outcomes": [e.name for e in outs], "case": case})
        return True
    got = outs[0].payload["details"] or {}
    ctx.check(all(got.get(n, (None, None))[1] == p for n, p in pre.items()), "snapshot.no-overwrite",
              lambda: {"got": {k: v[1] for k, v in got.items()}, "pre": pre, "case": case})
    for src, data in want_bytes.items():
        names = [n for n, (ctype, b) in got.items() if re.search(r'n="%s"' % re.escape(src), ctype)]
        ctx.check(len(names) == 1, "snapshot.each-source-once", lambda: {"src": src, "names": names, "case": case})
        if names:
            ctx.check(got[names[0]][1] == data, "snapshot.unaffected",
                      lambda: {"src": src, "got": got[names[0]][1], "want": data, "case": case})
    return True


SUBCHECKS = {
    "snapshot_fixture": x_snapshot_fixture,
    "decode": x_decode,
    "roundtrip": x_roundtrip,
    "stream": x_stream,
    "eq": x_eq,
    "ctype": x_ctype,
    "snapshot": x_snapshot,
    "interleave": x_interleave,
}

_PARAM_ALPHABET = list(string.ascii_letters + string.digits + " ;=,/()<>@:[]?*'%!#$&+-.^_`|~{}") + [
    "\xe9", "☃", "\U0001f600", "\t"]


def _rand_text(rng, maxlen):
    n = rng.randint(0, maxlen)
    out = []
    for _ in range(n):
        r = rng.random()
        if r < 0.5:
            out.append(rng.choice(POOL))
        else:
            while True:
                cp = rng.randrange(0x110000)
                if not 0xD800 <= cp <= 0xDFFF:
                    break
            out.append(chr(cp))
    return "".join(out)


def _rand_params(rng):
    params = {}
    for _ in range(rng.randint(0, 3)):
        key = "".join(rng.choice(string.ascii_lowercase + string.digits + "-_.")
                      for _ in range(rng.randint(1, 6)))
        if key == "charset":
            val = rng.choice(["utf8", "utf-8", "latin-1", "us-ascii", "x y"])
        else:
            while True:
                val = "".join(rng.choice(_PARAM_ALPHABET) for _ in range(rng.randint(0, 9)))
                if "=?" not in val:
                    break
        params[key] = val
    if rng.random() < 0.3:
        params["charset"] = rng.choice(["utf8", "utf-8", "ISO-8859-1", "utf-16"])
    return params


def run(ctx):
    rng = ctx.rng
    # ---- decode: all cuts of short encodings --------------------------------
    short_texts = ["", "a", "\xe9", "☃", "\U0001f600", "a\x00b", "é", "\xff\xe9", "퟿",
                   "﻿a", "€\U0010ffff"]
    n_enum = 0
    for charset in CHARSETS:
        for t in short_texts:
            try:
                b = t.encode(charset or "ISO-8859-1")
            except UnicodeEncodeError:
                continue
            if len(b) > (8 if ctx.quick else 11):
                continue
            n = len(b)
            for mask in range(1 << max(0, n - 1)):
                cuts = [i + 1 for i in range(n - 1) if mask >> i & 1]
                for empties in ([], [0], [len(cuts) + 1], [0, 1, len(cuts) + 1]):
                    if ctx.mine():
                        n_enum += 1
                        ctx.execute("decode", {"charset": charset, "hex": b.hex(), "cuts": cuts,
                                               "empties": empties})
    # inputs shorter than a BOM under utf-8-sig, open shift sequences under utf-7: text only the final flush yields
    for charset, hexes in (("utf-8-sig", ["61", "6162", "c3a9", "efbbbf61", "e29883", "efbbbf"]),
                           ("utf-7", ["2b4147452d", "612b4147452d62", "2b414745", "61"])):
        for h in hexes:
            n = len(h) // 2
            for mask in range(1 << max(0, n - 1)):
                if ctx.mine():
                    n_enum += 1
                    ctx.execute("decode", {"charset": charset, "hex": h,
                                           "cuts": [i + 1 for i in range(n - 1) if mask >> i & 1], "empties": []})
    ctx.note_space("decode: every cut (+empty-chunk placements) of %d short texts x %d charsets, plus raw inputs that "
                   "only the decoder's final flush completes" % (len(short_texts), len(CHARSETS)), n_enum)
    # random texts and random / arbitrary bytes
    ctx.notes["random_cases"] = True
    for i in range(ctx.scale(8000, 300000)):
        if ctx.out_of_time():
            break
        charset = rng.choice(CHARSETS)
        if rng.random() < 0.75:
            t = _rand_text(rng, 12)
            try:
                b = t.encode(charset or "ISO-8859-1")
            except UnicodeEncodeError:
                ctx.count("decode.excluded-unencodable")
                continue
        else:
            # arbitrary (possibly invalid) bytes; BOM-sniffing codecs excluded, their
            # incremental decoders in the stdlib insist on a BOM that whole decoding does not
            # (and the stdlib's utf-8-sig decoder silently drops a proper prefix of the BOM at the very end)
            if charset in ("utf-16", "utf-32"):
                charset = "utf-16-le"
            elif charset in ("utf-8-sig", "utf-7"):
                charset = "utf8"
            b = bytes(rng.randrange(256) for _ in range(rng.randint(0, 10)))
        cuts = sorted({rng.randint(0, len(b)) for _ in range(rng.randint(0, 6))})
        empties = [rng.randint(0, 6) for _ in range(rng.randint(0, 2))]
        ctx.execute("decode", {"charset": charset, "hex": b.hex(), "cuts": cuts, "empties": empties})
    # ---- several contents decoded concurrently / abandoned ----------------------------------
    for i in range(ctx.scale(3000, 100000)):
        if ctx.out_of_time():
            break
        charset = rng.choice(["utf8", "utf-16", "gb18030", "utf-16-le"])
        cs = []
        for _ in range(rng.randint(2, 3)):
            t = "".join(rng.choice(["\xe9", "☃", "\U0001f600", "a", "€"]) for _ in range(rng.randint(1, 5)))
            b = t.encode(charset)
            cs.append({"charset": charset, "hex": b.hex(),
                       "cuts": sorted({rng.randint(1, max(1, len(b) - 1)) for _ in range(rng.randint(1, 4))})})
        ctx.execute("interleave", {"contents": cs,
                                   "abandon": [0] if rng.random() < 0.4 else []})
    # ---- roundtrip ----------------------------------------------------------
    for t in short_texts + ['"\\\n', "\r\n", "\x00"]:
        if ctx.mine():
            ctx.execute("roundtrip", {"kind": "text", "text": t})
    for i in range(ctx.scale(2000, 100000)):
        ctx.execute("roundtrip", {"kind": "text", "text": _rand_text(rng, 30)})
        if i % 40 == 0:
            # long texts (a log), mostly multi-byte: more bytes than characters by a factor of 2-4
            unit = rng.choice(["\xe9", "\u2603", "\U0001f600", "a\xe9", "\u0416\u0443\u043a "])
            ctx.execute("roundtrip", {"kind": "text", "text": unit * rng.choice([1025, 2049, 4097, 9000]) + _rand_text(rng, 5)})

    def rand_json(depth=0):
        r = rng.random()
        if depth > 2 or r < 0.4:
            return rng.choice([None, True, False, 0, -1, 2 ** 40, 1.5, "", _rand_text(rng, 6), 1, 1.0, 0.0, -0.0, True, 1, 1.0])
        if r < 0.7:
            return [rand_json(depth + 1) for _ in range(rng.randint(0, 3))]
        return {_rand_text(rng, 4): rand_json(depth + 1) for _ in range(rng.randint(0, 3))}

    for i in range(ctx.scale(1500, 60000)):
        ctx.execute("roundtrip", {"kind": "json", "data": rand_json()})
    # ---- stream: exhaustive small grid ---------------------------------------
    n_enum = 0
    maxlen = 12 if ctx.quick else 21
    maxcs = 6 if ctx.quick else 10
    for L in range(0, maxlen):
        data = bytes((7 * i + L) % 256 for i in range(L))
        offs = [(None, 0), (0, 0), (1, 0), (L // 2, 0), (L, 0), (L + 3, 0),
                (0, 2), (-1, 2), (-(L // 2), 2), (-L, 2), (2, 2)]
        for cs in range(1, maxcs):
            for off, wh in offs:
                for bn in (False, True):
                    if ctx.mine():
                        n_enum += 1
                        ctx.execute("stream", {"hex": data.hex(), "chunk": cs, "offset": off,
                                               "whence": wh, "buffer_now": bn,
                                               "whence_omitted": wh == 0 and (n_enum % 2 == 0)})
    ctx.note_space("stream: length 0..%d x chunk_size 1..%d x 11 seek positions x buffer_now"
                   % (maxlen - 1, maxcs - 1), n_enum)
    for i in range(ctx.scale(2000, 60000)):
        if ctx.out_of_time():
            break
        L = rng.randint(0, 70)
        data = bytes(rng.randrange(256) for _ in range(L))
        off = rng.choice([None, rng.randint(0, L + 5), -rng.randint(0, L)])
        wh = 0 if off is None or off >= 0 and rng.random() < 0.7 else 2
        cs = rng.choice([1, 2, 3, 5, 8, 16, 64, 4096])
        case = {"hex": data.hex(), "chunk": cs, "offset": off, "whence": wh,
                "buffer_now": rng.random() < 0.5, "whence_omitted": rng.random() < 0.5}
        if rng.random() < 0.4:
            case["short"] = [rng.randint(1, max(1, cs)) for _ in range(rng.randint(1, 6))]
        ctx.execute("stream", case)
    # ---- eq -------------------------------------------------------------------
    def rand_content_desc(base=None):
        if base is not None and rng.random() < 0.6:
            d = dict(base)
            r = rng.random()
            if r < 0.5:  # same bytes, different chunking
                data = bytes.fromhex(d["hex"])
                d["cuts"] = sorted({rng.randint(0, len(data)) for _ in range(rng.randint(0, 4))})
                d["empties"] = [rng.randint(0, 4) for _ in range(rng.randint(0, 2))]
            elif r < 0.7:  # differ only after the first chunk
                data = bytearray(bytes.fromhex(d["hex"]) + b"x")
                data[-1] ^= 1
                d["hex"] = bytes(data).hex()
            elif r < 0.85:
                d["params"] = dict(d["params"], extra="1")
            else:
                d["sub"] = d["sub"] + "x"
            return d
        data = bytes(rng.randrange(256) for _ in range(rng.randint(0, 8)))
        return {"type": rng.choice(["text", "application"]), "sub": rng.choice(["plain", "json"]),
                "params": rng.choice([{}, {"charset": "utf8"}, {"a": "b"}]), "hex": data.hex(),
                "cuts": sorted({rng.randint(0, len(data)) for _ in range(rng.randint(0, 3))}),
                "empties": [rng.randint(0, 3) for _ in range(rng.randint(0, 2))]}

    for i in range(ctx.scale(4000, 160000)):
        a = rand_content_desc()
        ctx.execute("eq", {"a": a, "b": rand_content_desc(a), "subclass": rng.choice([None, None, "a", "both"])})
    # ---- ctype ----------------------------------------------------------------
    types = ["text", "application", "image", "x-foo", "a.b+c"]
    subs = ["plain", "octet-stream", "x-traceback", "json", "vnd.a+b", "x.y-z_1"]
    for t, s in itertools.product(types, subs):
        if ctx.mine():
            ctx.execute("ctype", {"type": t, "sub": s, "params": {}}, nontrivial=False)
            ctx.execute("ctype", {"type": t, "sub": s, "params": {"charset": "utf8", "language": "python"}})
    for i in range(ctx.scale(6000, 300000)):
        ctx.execute("ctype", {"type": rng.choice(types), "sub": rng.choice(subs),
                              "params": _rand_params(rng)})
    # ---- snapshot ---------------------------------------------------------------
    names = ["foo", "foo-1", "foo-2", "traceback", "bar"]
    for i in range(ctx.scale(1500, 40000)):
        src = {n: [bytes(rng.randrange(256) for _ in range(rng.randint(0, 4))).hex()
                   for _ in range(rng.randint(0, 3))]
               for n in rng.sample(names, rng.randint(1, 4))}
        tgt = rng.sample(names, rng.randint(0, 4))
        ctx.execute("snapshot", {"source": src, "target": tgt, "live": rng.random() < 0.7})
        if i % 5 == 0:
            ctx.execute("snapshot_fixture", {"source": src, "target": tgt, "how": ["ok", "setup_fails", "old_setup_fails"][(i // 5) % 3]})
