"""C17 - tags are scoped: test-local changes never leak, run-level changes persist."""

import io
import itertools
import threading

from .. import recorders

PROPERTY = "C17"
LEVEL = "exploration"
RULE = (
    "a case is (subject, history).  Subjects: TestResult, TextTestResult, MultiTestResult, "
    "ThreadsafeForwardingResult, ExtendedToOriginalDecorator over every leaf flavour, "
    "TestResultDecorator, Tagger, TestByTestResult, two-level stacks of those, and "
    "ExtendedToStreamDecorator feeding a stream recorder, StreamToDict and StreamToExtendedDecorator.  "
    "Histories interleave startTestRun, tags(new, gone) with disjoint sets (outside tests, inside "
    "tests, between outcome and stopTest), startTest, outcomes, stopTest, the startTest-less addSkip + "
    "stopTest pair of Python 3.12.1, and PlaceHolder(tags=...).run().  After EVERY call current_tags "
    "is compared with a run-level-set + test-level-overlay model; at every outcome the tags the "
    "wrapped recorder (its own independent tag bookkeeping) or the stream consumer observes are "
    "compared with the reporter's.  Exhaustive over histories of <= 6 steps from a 10-symbol "
    "alphabet; random to 25 steps.  Distinct = canonical JSON; non-trivial = at least one tags() call "
    "and one outcome."
)
REQUIRED = {
    "mon:current_tags==model-after-every-call": 20000,
    "mon:leaf-observes-reporter-tags-at-outcome": 5000,
    "mon:stream-final-status-carries-reporter-tags": 500,
    "mon:stream-consumer-tags-not-changed-later": 500,
    "mon:no-crash-on-legal-history": 5000,
}
ASSUMPTIONS = [
    "tags(new, gone) is called with disjoint sets, as the property states",
    "TestByTestResult reports the tags current at stopTest (its documented callback point)",
    "PlaceHolder tags are chosen disjoint from the tags current when it runs",
]

SUBJECTS = ["TestResult", "TextTestResult", "Multi[ext,real]", "TFR[ext]", "TFR[real]", "E2O[py26]",
            "E2O[py27]", "E2O[twisted]", "E2O[ext]", "E2O[real]", "Decorator[ext]", "Tagger[ext]", "TBT",
            "E2O[Multi[ext]]", "Tagger[Multi[ext,real]]", "Multi[TBT,ext]", "E2S", "Multi[Tagger[ext],ext]",
            "TaggerGoneOnly[ext]", "TaggerGoneOnly[TFR[real]]", "E2O[E2S]", "TBT+host"]


class Subject:
    side = None
    extra = frozenset()

    def __init__(self, name):
        import testtools
        from .. import histories as H
        self.name = name
        self.logs = []      # ext/real recorder logs whose payload["tags"] are leaf observations
        self.tbt_calls = []
        self.tagger = None
        self.stream_log = None
        self.dicts = []

        self.recorders = []

        def leaf(f):
            log = recorders.Log()
            r = H.make_leaf(f, log)
            if f in ("ext", "real"):
                self.logs.append(log)
            if f == "ext":
                self.recorders.append(r)
            return r

        def tbt():
            return testtools.TestByTestResult(lambda **kw: self.tbt_calls.append(
                (kw["test"].id(), frozenset(kw["tags"]))))

        n = name
        if n == "TestResult":
            self.top = testtools.TestResult()
        elif n == "TextTestResult":
            self.top = testtools.TextTestResult(io.StringIO())
        elif n == "Multi[ext,real]":
            self.top = testtools.MultiTestResult(leaf("ext"), leaf("real"))
        elif n.startswith("TFR["):
            self.top = testtools.ThreadsafeForwardingResult(leaf(n[4:-1]), threading.Semaphore(1))
        elif n.startswith("E2O[Multi"):
            self.top = testtools.ExtendedToOriginalDecorator(testtools.MultiTestResult(leaf("ext")))
        elif n.startswith("E2O[") and n != "E2O[E2S]":
            self.top = testtools.ExtendedToOriginalDecorator(leaf(n[4:-1]))
        elif n == "Decorator[ext]":
            self.top = testtools.TestResultDecorator(leaf("ext"))
        elif n == "Tagger[ext]":
            self.tagger = (frozenset(["tg"]), frozenset(["a"]))
            self.top = testtools.Tagger(leaf("ext"), iter(["tg"]), (t for t in ["a"]))
        elif n == "TaggerGoneOnly[ext]":
            self.tagger = (frozenset(), frozenset(["a"]))       # nothing to add, one tag to remove
            self.top = testtools.Tagger(leaf("ext"), set(), {"a"})
        elif n == "TaggerGoneOnly[TFR[real]]":
            self.tagger = (frozenset(), frozenset(["a", "b"]))
            self.top = testtools.Tagger(testtools.ThreadsafeForwardingResult(leaf("real"), threading.Semaphore(1)),
                                        frozenset(), frozenset(["a", "b"]))
        elif n == "Tagger[Multi[ext,real]]":
            self.tagger = (frozenset(["tg"]), frozenset(["a"]))
            scratch_new, scratch_gone = {"tg"}, {"a"}
            self.top = testtools.Tagger(testtools.MultiTestResult(leaf("ext"), leaf("real")), scratch_new, scratch_gone)
            scratch_new.clear()          # the caller reuses its scratch sets
            scratch_gone.update({"tg", "b"})
        elif n == "Multi[Tagger[ext],ext]":
            # the multiplexer's own view must not be borrowed from a tag-changing constituent
            tagged_log = recorders.Log()
            # (what the constituent BEHIND the Tagger observes is checked too: every call reaches it, the Tagger's
            # own changes are made at startTest)
            self.side = (tagged_log, frozenset(["tg"]), frozenset(["a"]))
            self.top = testtools.MultiTestResult(
                testtools.Tagger(H.make_leaf("ext", tagged_log), {"tg"}, {"a"}), leaf("ext"))
        elif n == "TBT":
            self.top = tbt()
        elif n == "TBT+host":
            # a subclass overriding the public current_tags (every test also carries the host's tag): what the callback
            # gets is the reporter's current_tags - the overridden one
            class HostTagged(testtools.TestByTestResult):
                @property
                def current_tags(self):
                    return set(testtools.TestByTestResult.current_tags.fget(self)) | {"host"}
            self.extra = frozenset(["host"])
            self.top = HostTagged(lambda **kw: self.tbt_calls.append((kw["test"].id(), frozenset(kw["tags"]))))
        elif n == "Multi[TBT,ext]":
            self.top = testtools.MultiTestResult(tbt(), leaf("ext"))
        elif n in ("E2S", "E2O[E2S]"):
            self.stream_log = recorders.Log()
            self.sink = recorders.StreamRecorder(self.stream_log, "s")
            far_log = recorders.Log()
            self.logs.append(far_log)

            def on_dict(d):
                self.dicts.append((d, frozenset(d["tags"])))
            self.top = testtools.ExtendedToStreamDecorator(testtools.CopyStreamResult([
                self.sink, testtools.StreamToDict(on_dict),
                testtools.StreamToExtendedDecorator(recorders.ExtRecorder(far_log))]))
            if n == "E2O[E2S]":
                # the adapter is built before the run starts (when the stream decorator has no tag context yet)
                self.top = testtools.ExtendedToOriginalDecorator(self.top)
        else:
            raise ValueError(n)


def x_hist(ctx, case):
    import testtools
    subject = Subject(case["subject"])
    top = subject.top
    history = case["history"]
    run_tags, cur = set(), None
    side_run, side_cur, side_outcomes = set(), None, []     # the same for a constituent behind a Tagger
    outcome_tags = []   # (test id, model tags at outcome)
    stop_tags = []      # (test id, model tags at stopTest)
    work_new, work_gone = set(), set()
    tests = {}
    detail = lambda: {"subject": case["subject"], "history": history}  # noqa: E731

    def test_obj(i):
        if i not in tests:
            tests[i] = testtools.PlaceHolder("t%s" % i)
        return tests[i]

    def model():
        return set(cur if cur is not None else run_tags) | subject.extra

    step = 0
    try:
        for op in history:
            step += 1
            kind = op[0]
            if kind == "startTestRun":
                top.startTestRun()
                run_tags, cur = set(), None
                side_run, side_cur = set(), None
            elif kind == "stopTestRun":
                top.stopTestRun()
            elif kind == "tags":
                if "TFR" in case["subject"]:
                    # a forwarder holds tags back until the test's block is delivered: the reporter, meanwhile, goes on
                    # using the two working sets it fills for every call
                    work_new.clear()
                    work_new.update(op[1])
                    work_gone.clear()
                    work_gone.update(op[2])
                    top.tags(work_new, work_gone)
                    work_new.add("reporters-scribble")
                    work_gone.clear()
                else:
                    top.tags(set(op[1]), set(op[2]))
                tgt = cur if cur is not None else run_tags
                tgt |= set(op[1])
                tgt -= set(op[2])
                stgt = side_cur if side_cur is not None else side_run
                stgt |= set(op[1])
                stgt -= set(op[2])
            elif kind == "startTest":
                top.startTest(test_obj(op[1]))
                cur = set(run_tags)
                if subject.tagger:
                    cur |= subject.tagger[0]
                    cur -= subject.tagger[1]
                if subject.side:
                    side_cur = (set(side_run) | subject.side[1]) - subject.side[2]
            elif kind == "outcome":
                outcome_tags.append(("t%s" % op[1], frozenset(model())))
                side_outcomes.append(("t%s" % op[1], frozenset(side_cur if side_cur is not None else side_run)))
                t = test_obj(op[1])
                name = op[2]
                if name == "addSkip":
                    top.addSkip(t, "why")
                elif name in ("addSuccess", "addUnexpectedSuccess"):
                    getattr(top, name)(t)
                else:
                    from .. import histories as H
                    getattr(top, name)(t, H.make_exc_info("boom"))
            elif kind == "stopTest":
                stop_tags.append(("t%s" % op[1], frozenset(model())))
                top.stopTest(test_obj(op[1]))
                cur = None
                side_cur = None
            elif kind == "skip_nostart":
                side_outcomes.append(("t%s" % op[1], frozenset(side_run)))
                outcome_tags.append(("t%s" % op[1], frozenset(model())))
                stop_tags.append(("t%s" % op[1], frozenset(model())))
                top.addSkip(test_obj(op[1]), "why")
                top.stopTest(test_obj(op[1]))
            elif kind == "skip_bare":
                # what unittest's suite emits when setUpClass raises SkipTest: addSkip() for a holder object, with
                # neither startTest() nor stopTest() - no scope is opened, none is closed
                side_outcomes.append(("t%s" % op[1], frozenset(side_run)))
                outcome_tags.append(("t%s" % op[1], frozenset(model())))
                top.addSkip(test_obj(op[1]), "class skipped")
            elif kind == "placeholder":
                ptags = set(op[2])
                inside = model() | ptags
                if subject.tagger:
                    inside |= subject.tagger[0]
                    inside -= subject.tagger[1]
                outcome_tags.append(("p%s" % op[1], frozenset(inside)))
                stop_tags.append(("p%s" % op[1], frozenset(inside)))
                if subject.side:
                    side_outcomes.append(("p%s" % op[1], frozenset(((set(side_run) | subject.side[1]) - subject.side[2]) | ptags)))
                handed = set(ptags)
                ph = testtools.PlaceHolder("p%s" % op[1], outcome=op[3], tags=handed)
                # the caller goes on using the set it built the PlaceHolder from (replaying a log, say)
                handed.clear()
                handed.add("callers-next-tag")
                ph.run(top)
                run_tags -= ptags
                side_run -= ptags
            try:
                got = set(top.current_tags)
            except Exception as e:  # noqa
                got = "current_tags raised %r" % (e,)
            ctx.check(got == model(), "current_tags==model-after-every-call",
                      lambda: {"after step": step, "op": op, "got": got, "want": model(), **detail()})
        crashed = None
    except Exception:
        import traceback
        crashed = traceback.format_exc(limit=6)
    ctx.check(crashed is None, "no-crash-on-legal-history",
              lambda: {"step": step, "error": crashed, **detail()})
    if crashed:
        return True
    # ---- tag sets handed to a wrapped result are not rewritten afterwards ------------------------
    for r in subject.recorders:
        late = r.aliasing_problems()
        ctx.check(not late, "leaf-observes-reporter-tags-at-outcome",
                  lambda: {"tag sets handed to the wrapped result that changed afterwards (was, is)": late[:3], **detail()})
    # ---- what wrapped results observed at each outcome -----------------------------------------
    for log in subject.logs:
        seen = [(e.test, e.payload["tags"]) for e in log.events if e.name in recorders.OUTCOMES]
        ctx.check(seen == outcome_tags, "leaf-observes-reporter-tags-at-outcome",
                  lambda: {"seen": seen, "want": outcome_tags, **detail()})
    if subject.side:
        seen = [(e.test, e.payload["tags"]) for e in subject.side[0].events if e.name in recorders.OUTCOMES]
        ctx.check(seen == side_outcomes, "leaf-observes-reporter-tags-at-outcome",
                  lambda: {"the constituent behind the Tagger saw": seen, "want": side_outcomes, **detail()})
    if subject.tbt_calls or "TBT" in case["subject"]:
        ctx.check(subject.tbt_calls == stop_tags, "tbt-observes-reporter-tags-at-stopTest",
                  lambda: {"seen": subject.tbt_calls, "want": stop_tags, **detail()})
    if subject.stream_log is not None:
        finals = [(e.payload["test_id"], e.payload["test_tags"] or frozenset())
                  for e in subject.stream_log.of("status")
                  if e.payload["test_status"] not in (None, "inprogress")]
        ctx.check(finals == outcome_tags, "stream-final-status-carries-reporter-tags",
                  lambda: {"finals": finals, "want": outcome_tags, **detail()})
        late = subject.sink.aliasing_problems()
        late_d = [(d["id"], snap, set(d["tags"])) for d, snap in subject.dicts if frozenset(d["tags"]) != snap]
        ctx.check(not late and not late_d, "stream-consumer-tags-not-changed-later",
                  lambda: {"sink": late, "dicts": late_d, **detail()})
        dict_tags = [(d["id"], snap) for d, snap in subject.dicts]
        ctx.check(dict_tags == outcome_tags, "streamtodict-tags-at-outcome",
                  lambda: {"seen": dict_tags, "want": outcome_tags, **detail()})
        # ... and a test rebuilt from such a dict with the public test_dict_to_case() carries them when it is run
        from testtools.testresult.real import test_dict_to_case
        replayed = []
        for d, snap in subject.dicts:
            rlog = recorders.Log()
            try:
                test_dict_to_case(d).run(recorders.ExtRecorder(rlog))
            except Exception as e:  # noqa
                replayed.append((d["id"], repr(e)))
                continue
            outs = [e for e in rlog.events if e.name in recorders.OUTCOMES]
            replayed.append((d["id"], frozenset(outs[0].payload["tags"]) if outs else None))
        ctx.check(replayed == outcome_tags, "streamtodict-tags-at-outcome",
                  lambda: {"replayed through test_dict_to_case": replayed, "want": outcome_tags, **detail()})
    return any(op[0] == "tags" for op in history) and bool(outcome_tags)


def x_tfr_fault(ctx, case):
    """Two forwarders share one real testtools.TestResult whose outcome method raises for one test: the
    test-local tags of that test (closed by the stopTest the forwarder still delivers) must not be observed
    with any later test of either worker, nor stay in the target's current_tags."""
    import testtools
    from .. import histories as H
    fired = []

    def hook(name, test):
        if name == case["raise_in"] and not fired:
            fired.append(1)
            raise RuntimeError("target raises in " + name)
    log = recorders.Log(hook)
    target = H.make_leaf("real", log)
    sem = threading.Semaphore(1)
    w1 = testtools.ThreadsafeForwardingResult(target, sem)
    w2 = testtools.ThreadsafeForwardingResult(target, sem)
    target.startTestRun()
    a, b, c = (testtools.PlaceHolder(i) for i in ("A", "B", "C"))
    if case["w1_run_tags"]:
        w1.tags(set(case["w1_run_tags"]), set())
    w1.startTest(a)
    w1.tags(set(case["local"]), set())
    try:
        getattr(w1, case["raise_in"])(a, *([] if case["raise_in"] in ("addSuccess", "addUnexpectedSuccess") else
                                          [None]), **({"details": {}} if case["raise_in"] not in ("addSuccess", "addUnexpectedSuccess") else {}))
    except RuntimeError:
        pass
    try:
        w1.stopTest(a)
    except RuntimeError:
        pass
    w2.startTest(b)
    w2.addSuccess(b)
    w2.stopTest(b)
    w1.startTest(c)
    w1.addSuccess(c)
    w1.stopTest(c)
    seen = {e.test: e.payload["tags"] for e in log.events if e.name == "addSuccess"}
    want = {"B": frozenset(), "C": frozenset(case["w1_run_tags"])}
    ctx.check(seen == want and set(target.current_tags) == set(), "leaf-observes-reporter-tags-at-outcome",
              lambda: {"target raised in": case["raise_in"], "tags observed with the later tests": {k: sorted(v) for k, v in seen.items()},
                       "want": {k: sorted(v) for k, v in want.items()},
                       "target.current_tags afterwards": sorted(target.current_tags), "case": case})
    return True


def x_multi_fault(ctx, case):
    """One of several results behind a MultiTestResult fails in stopTest (a TestByTestResult whose callback writes to a
    closed log): the error leaves stopTest() - and the test's scope is over all the same: what the test added or
    removed is not current afterwards and does not reach later tests."""
    import testtools
    from .. import histories as H
    fired = []

    def hook(name, test):
        if name == "stopTest" and not fired:
            fired.append(1)
            raise RuntimeError("a wrapped result raises in stopTest")
    log_bad, log_ok = recorders.Log(hook), recorders.Log()
    order = [H.make_leaf("ext", log_bad), H.make_leaf(case["other"], log_ok)]
    if case["bad_last"]:
        order.reverse()
    multi = testtools.MultiTestResult(*order)
    multi.startTestRun()
    if case["run_tags"]:
        multi.tags(set(case["run_tags"]), set())
    a, b = testtools.PlaceHolder("A"), testtools.PlaceHolder("B")
    multi.startTest(a)
    multi.tags(set(case["local"]), set(case["run_tags"][:1]))
    multi.addSuccess(a)
    try:
        multi.stopTest(a)
    except RuntimeError:
        pass
    after = set(multi.current_tags)
    ctx.check(after == set(case["run_tags"]), "current_tags==model-after-every-call",
              lambda: {"after stopTest (which one wrapped result made raise)": sorted(after), "run-level tags": case["run_tags"], "case": case})
    multi.startTest(b)
    multi.addSuccess(b)
    multi.stopTest(b)
    seen = [e.payload["tags"] for e in log_ok.events if e.name == "addSuccess" and e.test == "B"]
    # (a result listed AFTER the one that raised never got that stopTest - the call was not completed; one listed
    # before it did, and observes the next test with the run-level tags only)
    ctx.check((seen == [frozenset(case["run_tags"])] or not case["bad_last"]) and set(multi.current_tags) == set(case["run_tags"]),
              "leaf-observes-reporter-tags-at-outcome",
              lambda: {"the next test was observed with": [sorted(s) for s in seen], "want": case["run_tags"], "case": case})
    return True


def x_twin(ctx, case):
    """Two instances of one kind of result (one per worker, per run, per test module): what is reported to the first -
    tags at run level before any startTestRun(), tags inside a test, a stop() - is not the second one's."""
    import testtools
    first, second = Subject(case["subject"]), Subject(case["subject"])
    a, b = first.top, second.top
    detail = lambda: {"subject": case["subject"], "steps": case["steps"]}  # noqa: E731
    t = testtools.PlaceHolder("t1")
    for step in case["steps"]:
        if step == "tags":
            a.tags({"first-only"}, set())
        elif step == "startTestRun":
            a.startTestRun()
        elif step == "startTest":
            a.startTest(t)
        elif step == "stop":
            a.stop()
        try:
            got = set(b.current_tags)
        except Exception as e:  # noqa
            got = "current_tags raised %r" % (e,)
        ctx.check(got == set(second.extra), "current_tags==model-after-every-call",
                  lambda: {"after reporting to ANOTHER instance": step, "this instance's current_tags": got, **detail()})
        if hasattr(b, "shouldStop"):
            ctx.check(not b.shouldStop, "current_tags==model-after-every-call",
                      lambda: {"after reporting to ANOTHER instance": step, "this instance's shouldStop": b.shouldStop, **detail()})
    return True


def x_tfr_pair(ctx, case):
    """Two (or three) forwarders sharing one target (ConcurrentTestSuite's set-up), each with run-level tags of its
    own, reporting complete tests one after the other in any order - ordinary tests, and the addSkip()+stopTest()
    pair without startTest() that unittest's runner of 3.12.1 emits for a skipped stdlib test: what the target
    observes with each outcome is what the REPORTING forwarder had current then, nothing of the others', and
    nothing is left set at the target afterwards."""
    import testtools
    from .. import histories as H
    log = recorders.Log()
    target = H.make_leaf(case.get("leaf", "real"), log)
    sem = threading.Semaphore(1)
    fwd = [testtools.ThreadsafeForwardingResult(target, sem) for _ in case["run_tags"]]
    target.startTestRun()
    run = [set() for _ in fwd]
    want = []
    for step in case["steps"]:
        w = step["w"]
        if step["k"] == "run_tags":
            fwd[w].tags(set(step["new"]), set(step["gone"]))
            run[w] = (run[w] | set(step["new"])) - set(step["gone"])
            continue
        t = testtools.PlaceHolder(step["id"])
        cur = set(run[w])
        if step["k"] == "test":
            fwd[w].startTest(t)
            if step.get("local"):
                fwd[w].tags(set(step["local"]), set())
                cur |= set(step["local"])
            getattr(fwd[w], step["outcome"])(t)
        else:       # "skip_nostart"
            fwd[w].addSkip(t, "skipped by the stdlib runner")
        fwd[w].stopTest(t)
        want.append((step["id"], frozenset(cur)))
    seen = [(e.test, frozenset(e.payload["tags"])) for e in log.events if e.name in recorders.OUTCOMES]
    try:
        left = set(target.current_tags)
    except Exception as e:  # noqa
        left = repr(e)
    ctx.check(seen == want, "leaf-observes-reporter-tags-at-outcome",
              lambda: {"the target observed": [(i, sorted(t)) for i, t in seen],
                       "the reporting forwarders had": [(i, sorted(t)) for i, t in want], "case": case})
    ctx.check(left == set(), "leaf-observes-reporter-tags-at-outcome",
              lambda: {"left set at the target after the last test": left if isinstance(left, str) else sorted(left), "case": case})
    return len(fwd) > 1


def x_raw_stream(ctx, case):
    """A reporter that speaks the stream protocol itself and tags EVERY event of a test with the tags current at
    that moment (what subunit streams look like): a consumer - StreamToDict, StreamToExtendedDecorator - observes
    the tags of the test's final event, i.e. those current at its outcome, not a mixture with earlier ones."""
    import testtools
    dicts = []
    far = recorders.Log()
    consumers = [testtools.StreamToDict(dicts.append), testtools.StreamToExtendedDecorator(recorders.ExtRecorder(far))]
    for c in consumers:
        c.startTestRun()
    want = []
    for i, t in enumerate(case["tests"]):
        tid = "r%d" % i
        import datetime
        t0 = datetime.datetime(2022, 3, 3, tzinfo=datetime.timezone.utc)
        stamps = iter([t0 + datetime.timedelta(seconds=x) for x in t.get("clock", [0, 1, 2, 3])] + [None] * 4)
        events = [dict(test_id=tid, test_status="inprogress", test_tags=set(t["start"]), timestamp=next(stamps))]
        for k, mid in enumerate(t.get("mid", [])):
            events.append(dict(test_id=tid, file_name="f%d" % k, file_bytes=b"x", eof=True, mime_type="text/plain",
                               test_tags=set(mid), timestamp=next(stamps)))
        # (a set, also when empty: None would mean "nothing said"; the clock may have stepped BACK since the start)
        events.append(dict(test_id=tid, test_status=t["status"], test_tags=set(t["end"]), timestamp=next(stamps)))
        for c in consumers:
            for e in events:
                c.status(**e)
        want.append((tid, frozenset(t["end"])))
    for c in consumers:
        c.stopTestRun()
    got_d = [(d["id"], frozenset(d["tags"])) for d in dicts]
    got_f = [(e.test, frozenset(e.payload["tags"])) for e in far.events if e.name in recorders.OUTCOMES]
    ctx.check(got_d == want, "streamtodict-tags-at-outcome", lambda: {"seen": got_d, "want": want, "case": case})
    ctx.check(got_f == want, "leaf-observes-reporter-tags-at-outcome",
              lambda: {"behind StreamToExtendedDecorator": got_f, "want": want, "case": case})
    return any(set(t["start"]) != set(t["end"]) for t in case["tests"])


SUBCHECKS = {"hist": x_hist, "tfr_fault": x_tfr_fault, "tfr_pair": x_tfr_pair, "twin": x_twin, "multi_fault": x_multi_fault, "raw_stream": x_raw_stream}

ALPHABET = [["tags", ["a"], []], ["tags", ["b"], ["a"]], ["tags", [], ["b"]], ["startTest"], ["outcome", "addSuccess"],
            ["outcome", "addError"], ["stopTest"], ["skip_nostart"], ["startTestRun"], ["placeholder", ["p"], "addSuccess"]]


def legal_sequences(maxlen):
    """All legal op sequences (after an initial startTestRun) up to maxlen over ALPHABET."""
    out = []

    def rec(seq, state, n):  # state: 0 outside, 1 in test no outcome, 2 in test after outcome
        out.append(seq)
        if len(seq) == maxlen:
            return
        for sym in ALPHABET:
            k = sym[0]
            if k == "tags":
                rec(seq + [sym], state, n)
            elif k == "startTest" and state == 0:
                rec(seq + [["startTest", n + 1]], 1, n + 1)
            elif k == "outcome" and state == 1:
                rec(seq + [["outcome", n, sym[1]]], 2, n)
            elif k == "stopTest" and state == 2:
                rec(seq + [["stopTest", n]], 0, n)
            elif k == "skip_nostart" and state == 0:
                rec(seq + [["skip_nostart", n + 1]], 0, n + 1)
            elif k == "startTestRun" and state == 0:
                rec(seq + [sym], 0, n)
            elif k == "placeholder" and state == 0:
                rec(seq + [["placeholder", n + 1, sym[1], sym[2]]], 0, n + 1)
    rec([], 0, 0)
    return out


def random_history(rng):
    h = [["startTestRun"]]
    n = 0
    state = 0
    # "" is a (falsy) tag like any other; so is text UTF-8 cannot encode (an os.fsdecode()d name): tags are compared
    # and passed on as given
    tags = ["a", "b", "c", "", "caf\udce9", "caf?"]
    for _ in range(rng.randint(2, 25)):
        r = rng.random()
        if r < 0.3:
            new = rng.sample(tags, rng.randint(0, 2))
            gone = [t for t in rng.sample(tags, rng.randint(0, 2)) if t not in new]
            h.append(["tags", new, gone])
        elif state == 0:
            r = rng.random()
            if r < 0.55:
                n += 1
                h.append(["startTest", n])
                state = 1
            elif r < 0.7:
                n += 1
                h.append(["skip_nostart", n])
            elif r < 0.75:
                n += 1
                h.append(["skip_bare", n])
            elif r < 0.85:
                h.append(["startTestRun"])
            else:
                n += 1
                h.append(["placeholder", n, rng.sample(["p", "q"], rng.randint(0, 2)),
                          rng.choice(["addSuccess", "addError", "addSkip"])])
        elif state == 1:
            h.append(["outcome", n, rng.choice(["addSuccess", "addError", "addFailure", "addSkip",
                                                "addExpectedFailure", "addUnexpectedSuccess"])])
            state = 2
        else:
            h.append(["stopTest", n])
            state = 0
    if state == 1:
        h.append(["outcome", n, "addSuccess"])
        state = 2
    if state == 2:
        h.append(["stopTest", n])
    h.append(["stopTestRun"])
    return h


def run(ctx):
    rng = ctx.rng
    n = 0
    for raise_in in ("addError", "addFailure", "addSuccess", "addSkip", "addExpectedFailure", "addUnexpectedSuccess"):
        for run_tags in ([], ["w1"]):
            for local in (["loc"], ["loc", "x"]):
                if ctx.mine():
                    n += 1
                    ctx.execute("tfr_fault", {"raise_in": raise_in, "w1_run_tags": run_tags, "local": local})
    ctx.note_space("two ThreadsafeForwardingResults over one TestResult whose outcome method raises once: 6 methods x "
                   "run-level tags on/off x 2 local tag sets", n)
    n = 0
    for subj in SUBJECTS:
        for hist in ([["startTestRun"], ["skip_bare", 1], ["tags", ["a"], []], ["skip_nostart", 2], ["startTest", 3],
                      ["outcome", 3, "addSuccess"], ["stopTest", 3], ["stopTestRun"]],
                     [["startTestRun"], ["tags", ["a"], []], ["skip_bare", 1], ["tags", ["b"], ["a"]], ["startTest", 2],
                      ["tags", ["c"], []], ["outcome", 2, "addError"], ["stopTest", 2], ["skip_bare", 3], ["skip_nostart", 4],
                      ["stopTestRun"]]):
            if ctx.mine():
                n += 1
                ctx.execute("hist", {"subject": subj, "history": hist})
    ctx.note_space("class-level skips (addSkip with neither startTest nor stopTest) among run-level tag changes and "
                   "other tests: 2 histories x %d subjects" % len(SUBJECTS), n)
    n = 0
    for other in ("ext", "real"):
        for bad_last in (False, True):
            for run_tags in ([], ["r"], ["r", "s"]):
                for local in (["loc"], ["loc", "x"]):
                    if ctx.mine():
                        n += 1
                        ctx.execute("multi_fault", {"other": other, "bad_last": bad_last, "run_tags": run_tags, "local": local})
    ctx.note_space("MultiTestResult over two results one of which raises in stopTest: 2 x 2 x 3 x 2", n)
    n = 0
    for subj in SUBJECTS:
        if "E2S" in subj:
            continue        # (a stream decorator has no tag state before its own startTestRun())
        for steps in (["tags"], ["tags", "startTestRun", "tags"], ["startTestRun", "tags", "startTest", "tags"],
                      ["tags", "stop"], ["startTestRun", "startTest", "tags", "stop"]):
            if ctx.mine():
                n += 1
                ctx.execute("twin", {"subject": subj, "steps": steps})
    ctx.note_space("two instances of each of the %d subjects x 5 short reports to the first" % len(SUBJECTS), n)
    n = 0
    for i in range(ctx.scale(1500, 60000)):
        nf = rng.choice([2, 2, 3])
        case = {"run_tags": [rng.sample(["w%d" % k, "shared"], rng.randint(0, 2)) for k in range(nf)], "steps": [],
                "leaf": rng.choice(["real", "real", "ext"])}
        for k, tg in enumerate(case["run_tags"]):
            if tg:
                case["steps"].append({"k": "run_tags", "w": k, "new": tg, "gone": []})
        for j in range(rng.randint(2, 7)):
            w = rng.randrange(nf)
            r = rng.random()
            if r < 0.3:
                case["steps"].append({"k": "skip_nostart", "w": w, "id": "t%d" % j})
            elif r < 0.4:
                case["steps"].append({"k": "run_tags", "w": w, "new": ["late%d" % j], "gone": rng.sample(["shared", "w%d" % w], 1)})
            else:
                st = {"k": "test", "w": w, "id": "t%d" % j,
                      "outcome": rng.choice(["addSuccess", "addSuccess", "addUnexpectedSuccess"])}
                if rng.random() < 0.4:
                    st["local"] = ["loc%d" % j]
                case["steps"].append(st)
        n += 1
        ctx.execute("tfr_pair", case)
    ctx.note_space("2-3 forwarders over one target: random sequences of 2..7 complete tests / startTest-less skips / "
                   "run-level tag changes (random)", n, False)
    maxlen = 5 if ctx.quick else 6
    seqs = legal_sequences(maxlen)
    n = 0
    stride = 3 if ctx.quick else 1
    for i, seq in enumerate(seqs):
        for j, subj in enumerate(SUBJECTS):
            if stride > 1 and (i + j + ctx.seed) % stride:
                continue
            if ctx.mine():
                n += 1
                ctx.execute("hist", {"subject": subj, "history": [["startTestRun"]] + seq}, sample=(n % 1999 == 0))
    ctx.note_space("all legal histories of <= %d steps over a 10-symbol alphabet (%d) x %d subjects%s"
                   % (maxlen, len(seqs), len(SUBJECTS), " (1/3 slice rotated by seed)" if stride > 1 else ""),
                   n, stride == 1)
    ctx.notes["random_cases"] = True
    for i in range(ctx.scale(6000, 500000)):
        if ctx.out_of_time():
            break
        if i % 25 == 0:
            pool = ["a", "b", "c", ""]
            ctx.execute("raw_stream", {"tests": [
                {"start": rng.sample(pool, rng.randint(0, 3)), "end": rng.sample(pool, rng.randint(0, 3)),
                 "mid": [rng.sample(pool, rng.randint(0, 3)) for _ in range(rng.randint(0, 2))],
                 "clock": rng.choice([[0, 1, 2, 3], [5, 4, 3, 2], [10, 10, 0, 0], [3, 9, 1, 2]]),
                 "status": rng.choice(["success", "fail", "skip", "xfail", "uxsuccess"])}
                for _ in range(rng.randint(1, 4))]})
        subj, hist = rng.choice(SUBJECTS), random_history(rng)
        if subj == "Multi[Tagger[ext],ext]" and rng.random() < 0.6:
            # the reporter also names the tag the Tagger below adds (a test declaring itself "not tg")
            hist = [[op[0], ["tg" if t == "c" else t for t in op[1]], ["tg" if t == "c" else t for t in op[2]]]
                    if op[0] == "tags" else op for op in hist]
        ctx.execute("hist", {"subject": subj, "history": hist})
