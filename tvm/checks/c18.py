"""C18 - routing picks exactly one destination; route prefixes push and pop inversely."""

import collections
import datetime
import itertools

from .. import recorders

PROPERTY = "C18"
LEVEL = "exploration"
RULE = (
    "a case is a router configuration (fallback present/absent, do_start_stop_run on/off) plus a "
    "history of operations: startTestRun, stopTestRun, add_rule(route_code_prefix p, consume T/F, "
    "do_start_stop_run T/F), add_rule(test_id x | None), status events (route code None or 1..4 "
    "segments, ids None/a/b, all ten fields), and events pushed through 1..2 nested "
    "StreamToQueue(code) before the router.  Every sink is a recording StreamResult; the oracle is "
    "the three-step routing rule of the statement.  Exhaustive over a small grid of rule sets x "
    "add_rule positions x events; random histories beyond.  Distinct = canonical JSON of the "
    "history; non-trivial = at least one rule and one event."
)
REQUIRED = {
    "mon:route.exactly-one-sink-gets-it": 2000,
    "mon:route.right-sink-and-fields": 2000,
    "mon:route.raises-without-destination": 50,
    "mon:startstop.registered-sinks-only-once-per-run": 1000,
    "mon:queue.roundtrip-restores-route-code": 200,
}
ASSUMPTIONS = [
    "rule sets are unambiguous: each route prefix and each test id is bound at most once (the class "
    "documents ambiguous rules as undefined)",
    "events are passed by keyword (the router's status() accepts keywords only)",
    "each rule has its own sink object, so start/stop counts are per rule",
]

UTC = datetime.timezone.utc
TS = [None, datetime.datetime(2021, 5, 1, tzinfo=UTC)]


def mk_event(e):
    kw = dict(test_id=e.get("id"), test_status=e.get("st"), route_code=e.get("rc"))
    if "tags" in e:
        kw["test_tags"] = None if e["tags"] is None else set(e["tags"])
    if "fn" in e:
        kw.update(file_name=e["fn"], file_bytes=bytes.fromhex(e["fb"]), mime_type="text/plain",
                  eof=bool(e.get("eof")))
    if "ts" in e:
        kw["timestamp"] = TS[e["ts"]]
    if "runnable" in e:
        kw["runnable"] = e["runnable"]
    return kw


FIELDS = recorders.STREAM_FIELDS


def full(kw):
    d = dict(test_id=None, test_status=None, test_tags=None, runnable=True, file_name=None,
             file_bytes=None, eof=False, mime_type=None, route_code=None, timestamp=None)
    d.update(kw)
    if d["test_tags"] is not None:
        d["test_tags"] = frozenset(d["test_tags"])
    return d


def x_hist(ctx, case):
    import queue
    import testtools
    cfg = case["cfg"]
    log = recorders.Log()
    sinks = {}

    class EmptyLooking(recorders.StreamRecorder):
        """A perfectly good sink that happens to be falsy (e.g. a buffering result with __len__)."""

        def __len__(self):
            return 0

    class ByValue(recorders.StreamRecorder):
        """A sink that compares by value (like a @dataclass result): two distinct sinks that have
        received the same events so far are == (and the class is unhashable)."""

        def _own(self):
            return [(e.name, e.test) for e in self.log.events if e.payload["sink"] == self.name]

        def __eq__(self, other):
            return isinstance(other, ByValue) and self._own() == other._own()

        __hash__ = None

    def sink(name):
        if name not in sinks:
            cls = EmptyLooking if cfg.get("falsy_sinks") else recorders.StreamRecorder
            if cfg.get("equal_sinks"):
                cls = ByValue

            class MayFail(cls):
                """... and that raises, after taking the event, when the case says so."""

                def status(self, *a, **k):
                    super().status(*a, **k)
                    if fault.get("armed") is not None:
                        raise fault.pop("armed")

                def startTestRun(self):
                    super().startTestRun()
                    for fn in reentrant.pop((self.name, "start"), []):
                        fn()

                def stopTestRun(self):
                    super().stopTestRun()
                    for fn in reentrant.pop((self.name, "stop"), []):
                        fn()
            cls = MayFail
            sinks[name] = cls(log, name)
        return sinks[name]

    fault = {}
    reentrant = {}     # (sink name, "start" | "stop") -> callbacks run once from inside that sink's method
    fallback = sink("fallback") if cfg["fallback"] else None
    if cfg.get("fb_late") and cfg["fallback"] and not cfg["fb_ssr"]:
        # the fallback is the public attribute `fallback`: here it is assigned after construction (a handler that
        # needs the router to exist first), which is as good as passing it in - start / stop apart, which it opted out of
        router = testtools.StreamResultRouter()
        router.fallback = fallback
    else:
        router = testtools.StreamResultRouter(fallback, do_start_stop_run=cfg["fb_ssr"])
    # model state
    prefixes, test_ids = {}, {}
    registered = ["fallback"] if (cfg["fallback"] and cfg["fb_ssr"]) else []
    in_run = False
    expected = collections.defaultdict(list)  # sink -> [("start",)|("stop",)|("status", fields)]
    n_events = n_rules = 0
    detail = lambda: {"cfg": cfg, "ops": case["ops"],  # noqa: E731
                      "observed": {n: [(e.name, {k: e.payload.get(k) for k in ("route_code", "test_id")}
                                        if e.name == "status" else None)
                                       for e in log.events if e.payload["sink"] == n] for n in sinks}}
    for op in case["ops"]:
        kind = op[0]
        if kind == "start":
            router.startTestRun()
            in_run = True
            for s in registered:
                expected[s].append(("startTestRun",))
        elif kind == "stop":
            router.stopTestRun()
            in_run = False
            for s in registered:
                expected[s].append(("stopTestRun",))
        elif kind == "rule":
            _, name, policy, arg, consume, dssr = op
            n_rules += 1
            # (arguments left at their defaults when they have the default's value: do_start_stop_run=False,
            # consume_route=False)
            kw = {} if (not dssr and n_rules % 2) else {"do_start_stop_run": dssr}
            if policy == "prefix":
                if consume or n_rules % 3:
                    kw["consume_route"] = consume
                router.add_rule(sink(name), "route_code_prefix", route_prefix=arg, **kw)
                prefixes[arg] = (name, consume)
            else:
                router.add_rule(sink(name), "test_id", test_id=arg, **kw)
                test_ids[arg] = name
            if dssr:
                registered.append(name)
                if in_run:
                    expected[name].append(("startTestRun",))
        elif kind == "rule_from_inside":
            # a sink that, from inside its own startTestRun / stopTestRun, registers another sink for start/stop
            # (a supervisor adding a worker's sink when it notices the run beginning or ending)
            _, host, when, name, prefix = op
            n_rules += 1

            def add(name=name, prefix=prefix):
                router.add_rule(sink(name), "route_code_prefix", route_prefix=prefix, consume_route=False,
                                do_start_stop_run=True)
                prefixes[prefix] = (name, False)
                registered.append(name)
                # registered while the router is starting: started by that very loop; while it is stopping (the
                # run is still in progress): started at once and stopped by that very loop
                # (the start / stop of the loop itself is accounted for by the "start" / "stop" op, which walks
                # `registered` after the router call returned)
                if when == "stop":
                    expected[name].append(("startTestRun",))
            reentrant.setdefault((host, when), []).append(add)
        elif kind == "bad_rule":
            # add_rule refused by the policy (two-step prefix / missing argument): nothing may stick
            _, name, how, dssr = op
            try:
                if how == "two-step":
                    router.add_rule(sink(name), "route_code_prefix", route_prefix="0/1", do_start_stop_run=dssr)
                elif how == "missing":
                    router.add_rule(sink(name), "test_id", do_start_stop_run=dssr)
                else:
                    router.add_rule(sink(name), "no-such-policy", do_start_stop_run=dssr)
                refused = None
            except (TypeError, ValueError) as e:
                refused = e
            ctx.check(refused is not None, "add_rule.bad-rule-refused", lambda: {"op": op, **detail()})
        elif kind in ("ev", "q"):
            kw = mk_event(op[-1])
            sent = dict(kw)
            if kind == "q":
                q = queue.Queue()
                stq = None
                target = None
                for code in op[1]:  # innermost first
                    stq = testtools.StreamToQueue(q, code)
                    if target is None:
                        target = stq
                # nested: apply each StreamToQueue in turn through its own queue
                cur = dict(kw)
                for code in op[1]:
                    qq = queue.Queue()
                    try:
                        if n_events % 2:
                            # (StreamToQueue spells its parameters out: every other event goes in by position, in
                            # the order StreamResult.status documents)
                            from .c10 import ORDER
                            testtools.StreamToQueue(qq, code).status(*[cur.get(k, dflt) for k, dflt in ORDER])
                        else:
                            testtools.StreamToQueue(qq, code).status(**cur)
                    except Exception as e:  # noqa - a well-formed event: that is the violation
                        ctx.check(False, "queue.prefixes-route-code", {"StreamToQueue.status raised": repr(e), "event": cur})
                        return True
                    cur = qq.get()
                    ev_name = cur.pop("event")
                    assert ev_name == "status"
                sent = cur
                # model of StreamToQueue: prefix the code
                rc = kw.get("route_code")
                for code in op[1]:
                    rc = code if rc is None else code + "/" + rc
                ctx.check(sent["route_code"] == rc, "queue.prefixes-route-code",
                          lambda: {"sent": sent.get("route_code"), "want": rc})
            n_events += 1
            rc = sent.get("route_code")
            tid = sent.get("test_id")
            want_fields = full(sent)
            dest = None
            if rc is not None and rc.split("/")[0] in prefixes:
                p = rc.split("/")[0]
                dest, consume = prefixes[p]
                if consume:
                    rest = rc[len(p) + 1:]
                    want_fields["route_code"] = rest or None
            elif tid in test_ids:
                dest = test_ids[tid]
            elif cfg["fallback"]:
                dest = "fallback"
            before = len(log.events)
            raised = None
            boom = None
            if op[-1].get("sink_raises") and dest is not None:
                boom = fault["armed"] = {"KeyError": KeyError, "LookupError": LookupError,
                                         "ValueError": ValueError}[op[-1]["sink_raises"]]("the sink failed")
            try:
                router.status(**sent)
            except Exception as e:  # noqa
                raised = e
            fault.pop("armed", None)
            new = [e for e in log.events[before:] if e.name == "status"]
            if boom is not None:
                # the destination raises: the caller sees exactly that, and nobody else gets the event
                ctx.check(raised is boom and [e.payload["sink"] for e in new] == [dest], "route.exactly-one-sink-gets-it",
                          lambda: {"event": op[-1], "the sink raised": repr(boom), "the caller saw": repr(raised),
                                   "delivered to": [e.payload["sink"] for e in new], "want sink": dest, **detail()})
                expected[dest].append(("status",))
                for extra in new[1:]:
                    expected[extra.payload["sink"]].append(("status",))
                continue
            if dest is None:
                ctx.check(raised is not None and not new, "route.raises-without-destination",
                          lambda: {"event": op[-1], "raised": repr(raised), "delivered": len(new), **detail()})
                continue
            ctx.check(raised is None and len(new) == 1, "route.exactly-one-sink-gets-it",
                      lambda: {"event": op[-1], "raised": repr(raised),
                               "delivered to": [e.payload["sink"] for e in new], **detail()})
            if len(new) == 1:
                got = dict(new[0].payload)
                got_sink = got.pop("sink")
                ctx.check(got_sink == dest and got == want_fields, "route.right-sink-and-fields",
                          lambda: {"event": op[-1], "sink": got_sink, "want sink": dest,
                                   "got": got, "want": want_fields, **detail()})
                if kind == "q" and len(op[1]) == 1 and prefixes.get(op[1][0], (None, False))[1]:
                    ctx.check(got["route_code"] == kw.get("route_code"),
                              "queue.roundtrip-restores-route-code",
                              lambda: {"original": kw.get("route_code"), "arrived": got["route_code"]})
            expected[dest].append(("status",))
    # ---- start/stop accounting per sink ----------------------------------------------------
    for name in sinks:
        seen = [(e.name,) for e in log.events if e.payload["sink"] == name]
        ctx.check(seen == expected[name], "startstop.registered-sinks-only-once-per-run",
                  lambda: {"sink": name, "seen": seen, "want": expected[name], **detail()})
    return n_rules > 0 and n_events > 0


SUBCHECKS = {"hist": x_hist}

EVENTS = [
    {"id": "a", "st": "success"},
    {"id": "b", "st": "inprogress", "rc": "0"},
    {"id": "a", "st": "fail", "rc": "0/1", "tags": ["t"], "ts": 1},
    {"id": None, "st": None, "rc": "1", "fn": "f", "fb": "6869", "eof": True},
    {"id": "b", "st": "skip", "rc": "0/0/1", "runnable": False},
    {"id": None, "st": None, "fn": "g", "fb": "", "tags": []},
    {"id": "a", "st": "uxsuccess", "rc": "1/0/0/0"},
    {"id": "x", "st": "exists", "rc": "00/1"},
]


def run(ctx):
    rng = ctx.rng
    n = 0
    # exhaustive grid: rule sets x position of a late add_rule x every event
    rule_sets = []
    for p0 in (None, ("0", True), ("0", False)):
        for p1 in (None, ("1", True)):
            for t in (None, "a", "NONE"):
                rs = []
                if p0:
                    rs.append(["rule", "s0", "prefix", p0[0], p0[1], False])
                if p1:
                    rs.append(["rule", "s1", "prefix", p1[0], p1[1], True])
                if t:
                    rs.append(["rule", "st", "test_id", None if t == "NONE" else t, False, t == "a"])
                rule_sets.append(rs)
    for fb in (True, False):
        for fb_ssr in (True, False):
            for rs in rule_sets:
                for late in range(len(rs) + 1):  # how many rules are added mid-run
                    if not ctx.mine():
                        continue
                    early, mid = rs[:len(rs) - late], rs[len(rs) - late:]
                    ops = list(early) + [["start"]] + list(mid)
                    ops += [["ev", e] for e in EVENTS]
                    ops += [["q", ["0"], EVENTS[0]], ["q", ["0"], EVENTS[2]], ["q", ["1"], EVENTS[4]],
                            ["q", ["0", "0"], EVENTS[1]]]
                    ops += [["stop"], ["start"], ["ev", EVENTS[0]], ["stop"]]
                    n += 1
                    ctx.execute("hist", {"cfg": {"fallback": fb, "fb_ssr": fb_ssr}, "ops": ops})
    ctx.note_space("fallback x do_start_stop_run x 18 rule sets x number of rules added mid-run, "
                   "each with 8 direct events, 4 StreamToQueue round trips and a second run", n)
    n = 0
    for when in ("start", "stop"):
        for fb in (True, False):
            for second_run in (True, False):
                if not ctx.mine():
                    continue
                n += 1
                ops = [["rule", "host", "prefix", "0", True, True], ["rule_from_inside", "host", when, "late", "1"],
                       ["start"], ["ev", {"id": "a", "st": "success", "rc": "0/x"}], ["stop"]]
                if second_run:
                    ops += [["start"], ["ev", {"id": "b", "st": "fail", "rc": "1"}], ["stop"]]
                ctx.execute("hist", {"cfg": {"fallback": fb, "fb_ssr": fb}, "ops": ops})
    ctx.note_space("a sink registering another sink from inside its own startTestRun / stopTestRun: 2 x fallback on/off "
                   "x one or two runs", n)
    ctx.notes["random_cases"] = True
    segs = ["0", "1", "a", "00", "0a", "h%3A", "{0}"]      # (a route code is any text: URL-quoted names, braces)
    for i in range(ctx.scale(40000, 2000000)):
        if ctx.out_of_time():
            break
        cfg = {"fallback": rng.random() < 0.6, "fb_ssr": rng.random() < 0.6, "fb_late": rng.random() < 0.4}
        free_p = list(segs)
        free_t = [None, "a", "b", ""]      # "" is a test id like any other; None is the rule for id-less events
        used_p = []
        rng.shuffle(free_p)
        rng.shuffle(free_t)
        ops, k = [], 0
        if rng.random() < 0.2:
            cfg["falsy_sinks"] = True
        elif rng.random() < 0.2:
            cfg["equal_sinks"] = True
        for _ in range(rng.randint(2, 14)):
            r = rng.random()
            if r < 0.04:
                k += 1
                ops.append(["bad_rule", "s%d" % k, rng.choice(["two-step", "missing", "policy"]), rng.random() < 0.7])
            elif r < 0.12:
                ops.append(["start"] if rng.random() < 0.6 else ["stop"])
            elif r < 0.32 and (free_p or free_t):
                k += 1
                if free_p and (rng.random() < 0.6 or not free_t):
                    used_p.append(free_p.pop())
                    ops.append(["rule", "s%d" % k, "prefix", used_p[-1], rng.random() < 0.6,
                                rng.random() < 0.5])
                else:
                    ops.append(["rule", "s%d" % k, "test_id", free_t.pop(), False, rng.random() < 0.5])
            else:
                e = {"id": rng.choice([None, "a", "b", ""]),
                     "st": rng.choice([None, "inprogress", "success", "fail"])}
                if rng.random() < 0.75:
                    e["rc"] = "/".join(rng.choice(segs) for _ in range(rng.randint(1, 4)))
                if rng.random() < 0.3:
                    e["tags"] = rng.choice([None, [], ["x"]])
                if rng.random() < 0.3:
                    e.update(fn="f", fb=rng.choice(["", "78"]), eof=rng.random() < 0.5)
                if rng.random() < 0.4:
                    e["ts"] = 1
                if rng.random() < 0.06:
                    e["sink_raises"] = rng.choice(["KeyError", "LookupError", "ValueError"])
                if rng.random() < 0.25:
                    ops.append(["q", [rng.choice(segs) for _ in range(rng.randint(1, 2))], e])
                else:
                    ops.append(["ev", e])
        # keep start/stop well nested
        fixed, running = [], False
        for op in ops:
            if op[0] == "start":
                if running:
                    continue
                running = True
            elif op[0] == "stop":
                if not running:
                    continue
                running = False
            fixed.append(op)
        if running:
            fixed.append(["stop"])
        ctx.execute("hist", {"cfg": cfg, "ops": fixed})
