"""C19 - suite utilities preserve the test set: filter keeps chosen ids, sort permutes."""

import io
import itertools
import os
import shutil
import subprocess
import sys
import tempfile
import types
import unittest

from .. import core

PROPERTY = "C19"
LEVEL = "exploration"
RULE = (
    "a case is a suite tree (depth 0..4, fan-out 0..4) over plain unittest.TestSuite, TestSuite "
    "subclasses without protocol methods, with sort_tests, with a filter_by_ids that returns a NEW "
    "suite, with an in-place filter_by_ids, empty suites of every kind, and leaf tests (PlaceHolder "
    "subclasses that log when run; ids may contain spaces, brackets and non-ASCII), with unique or "
    "duplicated ids, plus a subset of ids (incl. absent ones).  Monitors: iterate_tests order and "
    "identity, filter_by_ids result ids / order / grouping path of every kept leaf, sorted_tests "
    "multiset / order model / custom suites kept as the same object / ValueError iff duplicates, "
    "testtools.run --list and --load-list in-process (and a few real subprocesses).  All trees with "
    "<= 4 nodes are enumerated; random beyond.  Distinct = canonical JSON of (tree, ids); non-trivial "
    "= at least two leaves."
)
REQUIRED = {
    "mon:filter.a-case's-own-filter_by_ids-is-used": 100,
    "mon:iterate.every-leaf-once-in-order": 1000,
    "mon:filter.exactly-the-chosen-in-order": 1000,
    "mon:filter.grouping-preserved": 1000,
    "mon:sorted.same-tests": 500,
    "mon:sorted.ordered-by-id": 500,
    "mon:filtered-then-sorted.placed-by-first-remaining-test": 500,
    "mon:filter.removed-tests-leave-fresh-empty-suites": 500,
    "mon:sorted.valueerror-iff-duplicate": 500,
    "mon:sorted-then-filtered.exactly-the-chosen": 300,
    "mon:run.list-prints-exactly-the-ids": 100,
    "mon:run.load-list-runs-exactly-the-listed": 100,
}
ASSUMPTIONS = [
    "ids have no leading/trailing whitespace and no line breaks (a --load-list file is one id per line)",
    "where a custom suite is placed is decided by the id of its first test in suite order (accepted "
    "before or after the suite's own sort_tests ran)",
    "custom filter_by_ids implementations used here honour the documented contract",
]

KINDS = ["plain", "custom", "customsort", "customfilter", "custominplace", "fixturesuite", "concurrent", "filterwithlen", "lazy"]


def classes():
    from testtools.testsuite import filter_by_ids, sorted_tests

    class Custom(unittest.TestSuite):
        pass

    class CustomSort(unittest.TestSuite):
        sort_calls = 0

        def sort_tests(self):
            type(self).sort_calls += 1
            self._tests = list(sorted_tests(self, True))

    class CustomFilter(unittest.TestSuite):
        def filter_by_ids(self, ids):
            return CustomFilter([filter_by_ids(t, ids) for t in self])

    class CustomInPlace(unittest.TestSuite):
        def filter_by_ids(self, ids):
            self._tests[:] = [filter_by_ids(t, ids) for t in self]
            return self

    import fixtures
    from testtools.testsuite import FixtureSuite

    def fixture_suite(tests):
        return FixtureSuite(fixtures.Fixture(), tests)

    import testtools

    class HashableSuite(unittest.TestSuite):
        __hash__ = object.__hash__

    def concurrent(tests):
        # ConcurrentTestSuite wraps ONE suite (here a custom one with its own filter_by_ids)
        # (run, it hands everything to one worker, in order; workers must be hashable)
        return testtools.ConcurrentTestSuite(
            CustomFilter(tests), lambda suite: [HashableSuite(list(testtools.iterate_tests(suite)))])

    class FilterWithLen(unittest.TestSuite):
        """A custom suite whose filter_by_ids returns a NEW suite (as the contract allows) and that has a __len__:
        a new suite that ends up empty is falsy - and still the answer."""

        def filter_by_ids(self, ids):
            return FilterWithLen([filter_by_ids(t, ids) for t in self])

        def __len__(self):
            return self.countTestCases()

    class Lazy(unittest.TestSuite):
        """A suite that materialises its tests on first use: __iter__ REBINDS self._tests then."""

        def __init__(self, tests=()):
            super().__init__()
            self._pending = list(tests)

        def _materialise(self):
            if self._pending is not None:
                self._tests = list(self._pending)
                self._pending = None

        def __iter__(self):
            self._materialise()
            return iter(self._tests)

        def countTestCases(self):
            self._materialise()
            return super().countTestCases()

        def run(self, result, debug=False):
            self._materialise()
            return super().run(result, debug)

    return {"plain": unittest.TestSuite, "custom": Custom, "customsort": CustomSort,
            "customfilter": CustomFilter, "custominplace": CustomInPlace, "fixturesuite": fixture_suite,
            "concurrent": concurrent, "filterwithlen": FilterWithLen, "lazy": Lazy}


class _OnlyContains:
    """test_ids is "something that supports the __contains__ protocol": this supports nothing else."""

    def __init__(self, ids):
        self._ids = set(ids)

    def __contains__(self, x):
        return x in self._ids


class _SetWithOwnContains(set):
    """A set subclass answering `in` itself (think: case-folding, globbing); as a plain set it is empty."""

    def __init__(self, ids):
        super().__init__()
        self._ids = set(ids)

    def __contains__(self, x):
        return x in self._ids


def as_ids(keep, how):
    return {None: set, "set": set, "frozenset": frozenset, "list": list, "tuple": tuple,
            "dict": lambda k: dict.fromkeys(k, 0), "contains_only": _OnlyContains,
            "set_subclass": _SetWithOwnContains}[how](keep)


def build(tree, cls, runlog):
    from testtools import PlaceHolder

    class Leaf(PlaceHolder):
        def run(self, result=None):
            runlog.append(self.id())
            return super().run(result)

    class OwnFilterLeaf(Leaf):
        # "to provide compatibility for a custom TestCase that does something unusual define filter_by_ids"
        def filter_by_ids(self, ids):
            build.own_calls.append(self.id())
            return self if self.id() in ids else unittest.TestSuite()

    def rec(t):
        if t[0] == "leaf":
            return (OwnFilterLeaf if t[1] in build.own else Leaf)(t[1])
        return cls[t[0]]([rec(c) for c in t[1]])
    return rec(tree)


build.own = frozenset()
build.own_calls = []


def leaves(t):
    if t[0] == "leaf":
        return [t[1]]
    return [x for c in t[1] for x in leaves(c)]


def paths(obj, prefix=()):
    """(leaf id, grouping path) for every leaf of a built suite."""
    try:
        it = list(iter(obj))
    except TypeError:
        return [(obj.id(), prefix)]
    out = []
    for i, c in enumerate(it):
        out.extend(paths(c, prefix + ((type(obj).__name__, i),)))
    return out


def x_tree(ctx, case):
    from testtools import iterate_tests
    from testtools.testsuite import filter_by_ids, sorted_tests
    tree, keep = case["tree"], set(case["keep"])
    ids_arg = as_ids(keep, case.get("ids_as"))      # what is handed to filter_by_ids as test_ids
    build.own = frozenset(case.get("own_filter", []))
    cls = classes()
    L = leaves(tree)
    detail = lambda: {"tree": tree, "keep": sorted(keep)}  # noqa: E731
    # ---- iterate_tests -----------------------------------------------------------------------
    s = build(tree, cls, [])
    got = list(iterate_tests(s))
    ctx.check([t.id() for t in got] == L and len({id(t) for t in got}) == len(got),
              "iterate.every-leaf-once-in-order", lambda: {"got": [t.id() for t in got], "want": L})
    # ---- filter_by_ids -----------------------------------------------------------------------
    s = build(tree, cls, [])
    before = paths(s)
    del build.own_calls[:]
    try:
        f = filter_by_ids(s, ids_arg)
    except Exception as e:  # noqa - in-domain input: that is the violation, not a harness problem
        ctx.check(False, "filter.exactly-the-chosen-in-order",
                  {"filter_by_ids raised": repr(e), "test_ids given as": case.get("ids_as") or "set", **detail()})
        return True
    if build.own:
        # a test case with a filter_by_ids of its own is filtered by calling it (once)
        want_calls = sorted(i for i in L if i in build.own)
        ctx.check(sorted(build.own_calls) == want_calls, "filter.a-case's-own-filter_by_ids-is-used",
                  lambda: {"called for": sorted(build.own_calls), "cases defining it": want_calls, **detail()})
    try:
        got = [t.id() for t in iterate_tests(f)]
    except Exception as e:  # noqa - what filter_by_ids handed back is not a suite or a case
        ctx.check(False, "filter.exactly-the-chosen-in-order", {"filter_by_ids returned": repr(f), "error": repr(e), **detail()})
        return True
    ctx.check(got == [i for i in L if i in keep], "filter.exactly-the-chosen-in-order",
              lambda: {"got": got, "want": [i for i in L if i in keep], **detail()})
    if tree[0] != "leaf":
        want_paths = [(i, p) for i, p in before if i in keep]
        ctx.check(paths(f) == want_paths, "filter.grouping-preserved",
                  lambda: {"got": paths(f), "want": want_paths, **detail()})
        # a ConcurrentTestSuite is a wrapper around ONE suite: that group is still its only member
        import testtools

        def wrappers_ok(obj):
            try:
                it = list(iter(obj))
            except TypeError:
                return True
            if isinstance(obj, testtools.ConcurrentTestSuite) and [type(c).__name__ for c in it] != ["CustomFilter"]:
                return False
            return all(wrappers_ok(c) for c in it)
        ctx.check(wrappers_ok(f), "filter.grouping-preserved",
                  lambda: {"a ConcurrentTestSuite no longer holds the suite it wraps": paths(f)[:6], **detail()})
    else:
        ctx.count("mon:filter.grouping-preserved")
    # every removed test leaves its own new, empty TestSuite: using one as the suite it is documented
    # to be must not show up anywhere else (here, or in the result of another filter_by_ids call)
    try:
        other = filter_by_ids(build(tree, cls, []), ids_arg)
    except Exception as e:  # noqa - in-domain arguments: that is the violation
        ctx.check(False, "filter.exactly-the-chosen-in-order", lambda: {"filter_by_ids raised": repr(e), **detail()})
        return True

    def empties(obj, acc):
        try:
            it = list(iter(obj))
        except TypeError:
            return acc
        if type(obj) is unittest.TestSuite and not it:
            acc.append(obj)
        for c in it:
            empties(c, acc)
        return acc
    holes = empties(f, []) + empties(other, [])
    if holes:
        from testtools import PlaceHolder
        holes[0].addTest(PlaceHolder("added-later"))
        n_here = [t.id() for t in iterate_tests(f)].count("added-later")
        n_other = [t.id() for t in iterate_tests(other)].count("added-later")
        ctx.check(len({id(h) for h in holes}) == len(holes) and (n_here, n_other) in ((1, 0), (0, 1)),
                  "filter.removed-tests-leave-fresh-empty-suites",
                  lambda: {"empty suites": len(holes), "distinct objects": len({id(h) for h in holes}),
                           "occurrences of a test added to one of them": (n_here, n_other), **detail()})
        holes[0]._tests[:] = []
    else:
        ctx.count("mon:filter.removed-tests-leave-fresh-empty-suites")
    # the filtered tree can then be sorted: custom suites are placed by their first REMAINING test
    kept = [i for i in L if i in keep]
    if len(set(kept)) == len(kept) and tree[0] != "leaf" and type(f) is unittest.TestSuite:
        def first_ids(suite):
            out = {}
            for child in _top_after_flatten(suite):
                if hasattr(child, "__iter__"):
                    ids_ = [t.id() for t in iterate_tests(child)]
                    out[id(child)] = ids_[0] if ids_ else None
            return out
        pre = first_ids(f)
        try:
            st2, err3 = sorted_tests(f), None
        except Exception as e:  # noqa
            st2, err3 = None, e
        ok = err3 is None
        keys_a, keys_b = [], []
        if ok:
            for child in st2:
                if hasattr(child, "__iter__"):
                    ids_ = [t.id() for t in iterate_tests(child)]
                    if id(child) not in pre:
                        ok = False
                        break
                    if ids_:
                        keys_a.append(pre[id(child)])
                        keys_b.append(ids_[0])
                    elif keys_a:
                        ok = False      # an empty custom suite (no id) sorts first
                else:
                    keys_a.append(child.id())
                    keys_b.append(child.id())
            ok = ok and (keys_a == sorted(keys_a) or keys_b == sorted(keys_b)) and \
                sorted(t.id() for t in iterate_tests(st2)) == sorted(kept)
        ctx.check(ok, "filtered-then-sorted.placed-by-first-remaining-test",
                  lambda: {"error": repr(err3), "keys (before sorting)": keys_a, "keys (after)": keys_b,
                           "kept": kept, **detail()})
    else:
        ctx.count("mon:filtered-then-sorted.placed-by-first-remaining-test")
    # ---- sorted_tests ------------------------------------------------------------------------
    s = build(tree, cls, [])
    customs = {}

    def collect(obj, under_custom):
        try:
            it = list(iter(obj))
        except TypeError:
            return
        is_custom = type(obj) is not unittest.TestSuite
        if is_custom and not under_custom:
            customs[id(obj)] = (obj, [t.id() for t in iterate_tests(obj)])
        for c in it:
            collect(c, under_custom or is_custom)
    collect(s, False)
    nested_customs = []   # custom suites living inside another custom suite, before anything is sorted

    def collect_nested(obj, under_custom):
        try:
            it = list(iter(obj))
        except TypeError:
            return
        is_custom = type(obj) is not unittest.TestSuite
        if is_custom and under_custom:
            nested_customs.append(obj)
        for c in it:
            collect_nested(c, under_custom or is_custom)
    collect_nested(s, False)
    dup = len(set(L)) != len(L)
    try:
        st = sorted_tests(s)
        err = None
    except ValueError as e:
        st, err = None, e
    except Exception as e:  # noqa
        st, err = None, e
    ctx.check((isinstance(err, ValueError)) == dup and (err is None or isinstance(err, ValueError)),
              "sorted.valueerror-iff-duplicate", lambda: {"raised": repr(err), "duplicates": dup, **detail()})
    if st is not None and not dup:
        gl = [t.id() for t in iterate_tests(st)]
        ctx.check(sorted(gl) == sorted(L), "sorted.same-tests", lambda: {"got": gl, "want": L, **detail()})
        if tree[0] == "leaf":
            ctx.count("mon:sorted.ordered-by-id")
            return len(L) >= 2
        top = list(st)
        keys_pre, keys_post, ok_shape = [], [], True
        for child in top:
            if id(child) in customs:
                obj, pre_ids = customs[id(child)]
                post_ids = [t.id() for t in iterate_tests(child)]
                if sorted(pre_ids) != sorted(post_ids):
                    ok_shape = False
                if pre_ids:
                    keys_pre.append(pre_ids[0])
                    keys_post.append(post_ids[0])
            elif hasattr(child, "id") and not hasattr(child, "__iter__"):
                keys_pre.append(child.id())
                keys_post.append(child.id())
            else:
                ok_shape = False  # a plain suite that was not flattened / a broken-up custom suite
        if type(s) is not unittest.TestSuite:
            # the outer object itself is custom: it is kept whole
            ok_shape = len(top) == 1 and top[0] is s
            keys_pre = keys_post = []
        ctx.check(ok_shape, "sorted.plain-flattened-custom-kept-whole",
                  lambda: {"top": [type(c).__name__ for c in top], **detail()})
        ctx.check(keys_pre == sorted(keys_pre) or keys_post == sorted(keys_post), "sorted.ordered-by-id",
                  lambda: {"keys (first id before sorting)": keys_pre, "keys (after)": keys_post, **detail()})
        # custom suites nested inside other custom suites survive as the same objects, too
        present = set()

        def walk(obj):
            try:
                it = list(iter(obj))
            except TypeError:
                return
            present.add(id(obj))
            for c in it:
                walk(c)
        walk(st)
        missing = [type(o).__name__ for o in nested_customs if id(o) not in present]
        ctx.check(not missing, "sorted.plain-flattened-custom-kept-whole",
                  lambda: {"nested custom suites dissolved": missing, **detail()})
        # the sorted suite can still be filtered (testtools.run discover --load-list does exactly that)
        try:
            f2 = filter_by_ids(st, ids_arg)
            got2 = sorted(t.id() for t in iterate_tests(f2))
            err2 = None
        except Exception as e:  # noqa
            got2, err2 = None, e
        ctx.check(err2 is None and got2 == sorted(i for i in L if i in keep), "sorted-then-filtered.exactly-the-chosen",
                  lambda: {"error": repr(err2), "got": got2, "want": sorted(i for i in L if i in keep), **detail()})
        # suites with sort_tests are sorted inside
        for obj, pre_ids in customs.values():
            if type(obj).__name__ in ("CustomSort", "FixtureSuite") and all(
                    hasattr(c, "id") and not hasattr(c, "__iter__") for c in obj):
                inner = [t.id() for t in obj]
                ctx.check(inner == sorted(inner), "sorted.sort_tests-honoured", lambda: {"inner": inner})
    return len(L) >= 2


def _top_after_flatten(suite):
    """The objects sorted_tests orders at top level: leaves and custom suites reached through plain suites."""
    out = []
    for c in suite:
        if type(c) is unittest.TestSuite:
            out.extend(_top_after_flatten(c))
        else:
            out.append(c)
    return out


def _under_custom(root, target, inside=False):
    """Is ``target`` (a suite object) nested somewhere inside a custom suite of ``root``?"""
    try:
        it = list(iter(root))
    except TypeError:
        return False
    here_custom = type(root) is not unittest.TestSuite
    for c in it:
        if c is target and (inside or here_custom):
            return True
        if _under_custom(c, target, inside or here_custom):
            return True
    return False


_mod_counter = itertools.count()


_LIST_DIR = []


def _list_dir():
    if not _LIST_DIR:
        import atexit
        _LIST_DIR.append(tempfile.mkdtemp(prefix="tvm-c19-lists-"))
        atexit.register(shutil.rmtree, _LIST_DIR[0], True)
    return _LIST_DIR[0]


def x_run(ctx, case):
    """testtools.run --list / --load-list on a generated module, in process."""
    from testtools import iterate_tests
    from testtools.run import TestProgram
    tree, keep = case["tree"], case["keep"]
    cls = classes()
    L = leaves(tree)
    runlog = []
    modname = "tvm_c19_mod_%d" % next(_mod_counter)
    mod = types.ModuleType(modname)
    mod.test_suite = lambda: build(tree, cls, runlog)
    names = ["test_suite"]
    if case.get("via_load_tests"):
        # the module's load_tests hook hands the program its suite as is (no wrapping TestSuite on top)
        mod.load_tests = lambda loader, tests, pattern: build(tree, cls, runlog)
        names = []
    sys.modules[modname] = mod
    # the module handed over as an object, by name, or by a dotted name (imported, then walked attribute by attribute)
    mod_arg, pkgname = mod, None
    if case.get("module_as") == "name":
        mod_arg = modname
    elif case.get("module_as") == "dotted":
        pkgname = "tvm_c19_pkg_%d" % next(_mod_counter)
        pkg = types.ModuleType(pkgname)
        pkg.__path__ = []
        inner = types.ModuleType(pkgname + ".inner")
        inner.__path__ = []
        pkg.inner, inner.leaf = inner, mod
        sys.modules[pkgname], sys.modules[pkgname + ".inner"], sys.modules[pkgname + ".inner.leaf"] = pkg, inner, mod
        mod_arg = pkgname + ".inner.leaf"
    runner_kw = {}
    if case.get("bare_runner"):
        import testtools

        class BareRunner:
            """A runner class without a list() method: TestProgram prints the ids itself."""

            def __init__(self, verbosity=None, failfast=None, buffer=None, stdout=None, tb_locals=False):
                self.stdout = stdout

            def run(self, test):
                result = testtools.TextTestResult(self.stdout)
                result.startTestRun()
                try:
                    return test.run(result)
                finally:
                    result.stopTestRun()
        runner_kw = {"testRunner": BareRunner}
        if case["bare_runner"] == "no_tb_locals":
            class OlderRunner(BareRunner):
                """... written against the contract before tb_locals was added: it still takes (and is given) stdout."""

                def __init__(self, verbosity=None, failfast=None, buffer=None, stdout=None):
                    self.stdout = stdout
            runner_kw = {"testRunner": OlderRunner}
    def run_program(argv, **kw):
        """TestProgram(argv=...) - or, the way a console script does it, with the arguments left in sys.argv."""
        if not case.get("argv_from_sys"):
            return TestProgram(module=mod_arg, argv=argv, **kw)
        saved_argv = sys.argv
        sys.argv = list(argv)
        try:
            return TestProgram(module=mod_arg, **kw)
        finally:
            sys.argv = saved_argv
    d = tempfile.mkdtemp(prefix="tvm-c19-")
    try:
        if case.get("after_failed_import"):
            # an ordinary run, earlier in the same process, of something that cannot be imported
            import unittest as _ut
            junk = io.StringIO()
            try:
                TestProgram(module=None, argv=["prog", "tvm_c19_no_such_module_%d" % next(_mod_counter)],
                            stdout=junk, exit=False)
            except SystemExit:
                pass
            except Exception as e:  # noqa - (module=None with a name that cannot be imported is ordinary use)
                ctx.check(False, "run.list-prints-exactly-the-ids", {"TestProgram(module=None, ...) raised": repr(e)})
                return True
        out = io.StringIO()
        if case.get("falsy_stdout"):
            class ListWriter:
                """A stream that collects what is written - and is falsy while nothing has been written."""

                def __init__(self):
                    self.parts = []

                def write(self, text):
                    self.parts.append(text)

                def flush(self):
                    pass

                def __len__(self):
                    return len(self.parts)

                def getvalue(self):
                    return "".join(self.parts)
            out = ListWriter()
        try:
            run_program(["prog", "--list"] + names, stdout=out, exit=False, **runner_kw)
        except (SystemExit, Exception) as e:  # noqa - in-domain arguments: that is the violation
            ctx.check(False, "run.list-prints-exactly-the-ids", {"TestProgram raised": repr(e), "argv": ["--list"] + names})
            return True
        listed = out.getvalue().split("\n")
        ctx.check(listed[-1:] == [""] and listed[:-1] == L, "run.list-prints-exactly-the-ids",
                  lambda: {"listed": listed, "want": L, "tree": tree})
        ctx.check(not runlog, "run.list-runs-nothing", lambda: {"ran": runlog})
        # (the same file name for every case of this process, rewritten each time - the way a CI job re-runs
        # `--load-list failing.list`: each TestProgram reads what the file holds NOW)
        path = os.path.join(_list_dir(), "ids.list")
        style = case.get("style", 0)
        sep = ["\n", "\r\n", " \n"][style % 3]
        with open(path, "wb") as f:
            f.write(sep.join(keep).encode("utf-8") + (sep.encode() if keep and style < 3 else b""))
        del runlog[:]
        out = io.StringIO()
        try:
            run_program(["prog", "--load-list", path] + names, stdout=out, exit=False, **runner_kw)
        except Exception as e:  # noqa - in-domain arguments: that is the violation
            ctx.check(False, "run.load-list-runs-exactly-the-listed", {"TestProgram raised": repr(e), "keep": keep})
            return True
        want = [i for i in L if i in set(keep)]
        ctx.check(runlog == want, "run.load-list-runs-exactly-the-listed",
                  lambda: {"ran": runlog, "want": want, "tree": tree, "keep": keep})
        text = out.getvalue()
        ctx.check(("Ran %d test" % len(want)) in text, "run.summary-counts-the-listed",
                  lambda: {"output": text[-200:], "want": len(want)})
        # both options together: exactly the listed ids that exist are printed, nothing is run
        del runlog[:]
        out = io.StringIO()
        try:
            run_program(["prog", "--list", "--load-list", path] + names, stdout=out, exit=False,
                        **runner_kw)
        except (SystemExit, Exception) as e:  # noqa
            ctx.check(False, "run.list-prints-exactly-the-ids", {"TestProgram raised": repr(e), "with": "--load-list"})
            return True
        listed = out.getvalue().split("\n")
        ctx.check(listed[-1:] == [""] and listed[:-1] == want and not runlog, "run.list-prints-exactly-the-ids",
                  lambda: {"listed with --load-list": listed, "want": want, "ran": runlog, "tree": tree, "keep": keep})
    finally:
        shutil.rmtree(d, ignore_errors=True)
        sys.modules.pop(modname, None)
        if pkgname:
            for k in (pkgname, pkgname + ".inner", pkgname + ".inner.leaf"):
                sys.modules.pop(k, None)
    return len(L) >= 2


def x_subprocess(ctx, case):
    """The same through a real `python -m testtools.run` process."""
    tree, keep = case["tree"], case["keep"]
    L = leaves(tree)
    d = tempfile.mkdtemp(prefix="tvm-c19-")
    try:
        with open(os.path.join(d, "tvm_c19_sub.py"), "w") as f:
            f.write("import unittest\nfrom testtools import PlaceHolder\nTREE = %r\n"
                    "class Leaf(PlaceHolder):\n"
                    "    def run(self, result=None):\n"
                    "        print('RAN:' + self.id())\n"
                    "        return super().run(result)\n"
                    "class Custom(unittest.TestSuite): pass\n"
                    "def b(t):\n"
                    "    if t[0] == 'leaf': return Leaf(t[1])\n"
                    "    return (unittest.TestSuite if t[0] == 'plain' else Custom)([b(c) for c in t[1]])\n"
                    "def test_suite(): return b(TREE)\n" % (tree,))
        with open(os.path.join(d, "ids.list"), "wb") as f:
            f.write("\n".join(keep).encode("utf-8") + b"\n")
        env = dict(os.environ, PYTHONPATH=os.pathsep.join([core.REPO_ROOT, d]), PYTHONIOENCODING="utf-8")
        r = subprocess.run([sys.executable, "-m", "testtools.run", "--list", "tvm_c19_sub.test_suite"],
                           capture_output=True, text=True, env=env, cwd=d, timeout=120, encoding="utf-8")
        ctx.check(r.returncode == 0 and r.stdout.split("\n")[:-1] == L, "run.list-prints-exactly-the-ids",
                  lambda: {"rc": r.returncode, "stdout": r.stdout, "stderr": r.stderr[-300:], "want": L})
        r = subprocess.run([sys.executable, "-m", "testtools.run", "--load-list",
                            os.path.join(d, "ids.list"), "tvm_c19_sub.test_suite"],
                           capture_output=True, text=True, env=env, cwd=d, timeout=120, encoding="utf-8")
        ran = [l[4:] for l in r.stdout.split("\n") if l.startswith("RAN:")]
        want = [i for i in L if i in set(keep)]
        ctx.check(ran == want and r.returncode == 0, "run.load-list-runs-exactly-the-listed",
                  lambda: {"rc": r.returncode, "ran": ran, "want": want, "stderr": r.stderr[-300:]})
    finally:
        shutil.rmtree(d, ignore_errors=True)
    return True


def x_discover(ctx, case):
    """`testtools.run discover`: the discovered tests are listed / run sorted by id."""
    d = tempfile.mkdtemp(prefix="tvm-c19-")
    try:
        pkg = os.path.join(d, "tvmpkg")
        os.mkdir(pkg)
        open(os.path.join(pkg, "__init__.py"), "w").close()
        ids = []
        for mod, names in case["modules"].items():
            with open(os.path.join(pkg, "test_%s.py" % mod), "w") as f:
                f.write("import testtools\nclass T(testtools.TestCase):\n")
                for n in names:
                    f.write("    def test_%s(self):\n        print('RAN:' + self.id())\n" % n)
                    ids.append("tvmpkg.test_%s.T.test_%s" % (mod, n))
        keep = [i for i in ids if i in set(case["keep"])] if case.get("keep") is not None else None
        with open(os.path.join(d, "ids.list"), "w") as f:
            f.write("\n".join(case.get("keep") or []) + "\n")
        env = dict(os.environ, PYTHONPATH=os.pathsep.join([core.REPO_ROOT, d]))
        r = subprocess.run([sys.executable, "-m", "testtools.run", "discover", "-s", pkg, "-t", d, "--list"],
                           capture_output=True, text=True, env=env, cwd=d, timeout=120)
        listed = r.stdout.split("\n")[:-1]
        ctx.check(r.returncode == 0 and listed == sorted(ids), "run.list-prints-exactly-the-ids",
                  lambda: {"discover": True, "rc": r.returncode, "listed": listed, "want": sorted(ids),
                           "stderr": r.stderr[-300:]})
        r = subprocess.run([sys.executable, "-m", "testtools.run", "discover", "-s", pkg, "-t", d,
                            "--load-list", os.path.join(d, "ids.list")],
                           capture_output=True, text=True, env=env, cwd=d, timeout=120)
        ran = [l[4:] for l in r.stdout.split("\n") if l.startswith("RAN:")]
        want = sorted(i for i in ids if i in set(case.get("keep") or []))
        ctx.check(sorted(ran) == want and len(ran) == len(want), "run.load-list-runs-exactly-the-listed",
                  lambda: {"discover": True, "ran": ran, "want": want, "stderr": r.stderr[-300:]})
    finally:
        shutil.rmtree(d, ignore_errors=True)
    return True


def x_iter_special(ctx, case):
    """iterate_tests on suites that are not plain trees of distinct objects: the same sub-suite object placed at
    two positions (its tests are yielded at both), and suites whose __iter__ hands out short-lived wrapper suites."""
    from testtools import iterate_tests, PlaceHolder
    from testtools.testsuite import sorted_tests
    ids = ["t%d" % i for i in range(case["n"])]
    if case["how"] == "shared":
        shared = unittest.TestSuite([PlaceHolder(i) for i in ids])
        before = [PlaceHolder("first")]
        suite = unittest.TestSuite(before + [shared, unittest.TestSuite([PlaceHolder("mid"), shared])])
        want = ["first"] + ids + ["mid"] + ids
    else:
        class Wrapping(unittest.TestSuite):
            def __iter__(self):
                for t in self._tests:
                    yield unittest.TestSuite([t])       # a fresh, short-lived suite per child
        suite = unittest.TestSuite([Wrapping([PlaceHolder(i) for i in ids])])
        want = list(ids)
    got = [t.id() for t in iterate_tests(suite)]
    ctx.check(got == want, "iterate.every-leaf-once-in-order", lambda: {"case": case, "got": got, "want": want})
    dup = len(set(want)) != len(want)
    try:
        sorted_tests(suite)
        raised = None
    except ValueError as e:
        raised = e
    ctx.check((raised is not None) == dup, "sorted.valueerror-iff-duplicate",
              lambda: {"case": case, "raised": repr(raised), "duplicates": dup})
    return True


def x_grow(ctx, case):
    """A suite that is sorted, then grows (tests discovered later are added), then is sorted again - what a loader
    that sorts after every batch does: each time the result is every test it holds NOW, by id; a custom suite inside
    is sorted inside again; a duplicate that arrived with the second batch raises ValueError."""
    import fixtures
    from testtools import PlaceHolder, iterate_tests
    from testtools.testsuite import FixtureSuite, sorted_tests
    first, second = case["first"], case["second"]
    inner = FixtureSuite(fixtures.Fixture(), [PlaceHolder(i) for i in first]) if case["kind"] == "fixture" \
        else unittest.TestSuite([PlaceHolder(i) for i in first])
    top = unittest.TestSuite([inner])

    def attempt():
        try:
            return [t.id() for t in iterate_tests(sorted_tests(top))], None
        except ValueError as e:
            return None, e
    got1, err1 = attempt()
    dup1 = len(set(first)) != len(first)
    ctx.check((err1 is not None) == dup1, "sorted.valueerror-iff-duplicate",
              lambda: {"case": case, "first pass raised": repr(err1)})
    if dup1:
        return True
    ctx.check(got1 == sorted(first), "sorted.ordered-by-id", lambda: {"case": case, "first pass": got1})
    for i in second:
        inner.addTest(PlaceHolder(i))
    got2, err2 = attempt()
    dup2 = len(set(first + second)) != len(first + second)
    ctx.check((err2 is not None) == dup2, "sorted.valueerror-iff-duplicate",
              lambda: {"case": case, "after the suite grew: raised": repr(err2), "duplicates": dup2})
    if not dup2 and err2 is None:
        ctx.check(got2 == sorted(first + second), "sorted.ordered-by-id",
                  lambda: {"case": case, "after the suite grew": got2, "want": sorted(first + second)})
        if case["kind"] == "fixture":
            inside = [t.id() for t in iterate_tests(inner)]
            ctx.check(inside == sorted(inside), "sorted.sort_tests-honoured",
                      lambda: {"case": case, "inside the FixtureSuite after the second pass": inside})
    return True


SUBCHECKS = {"grow": x_grow, "tree": x_tree, "run": x_run, "subprocess": x_subprocess, "discover": x_discover,
             "iter_special": x_iter_special}

# (U+2028 and form feed are line breaks to str.splitlines() but not to a bytes-wise readlines(); they are
# neither leading nor trailing here)
ID_POOL = ["mod.TestModuleImportFailure.test_reports", "mod.T.test_\u2028param", "mod.T.test\x0cff", "a", "b", "c", "d", "mod.T.test_x", "mod.T.test_x (slow)", "mod.T.test y[big endian]",
           "é.test", "z z", "B", "a.b", "a b",
           # ids competing on characters that sort before "." (a dash in a module name, a scenario in brackets)
           "pkg.test.T.x", "pkg.test-io.T.x", "mod.T.test_x(v1.2)", "mod.T.test_x(v1-rc)", "mod.T.test_x(v1)", "a-b", "a!b"]


def enum_trees(max_nodes):
    """All tree shapes with <= max_nodes nodes over 3 suite kinds; leaves get ids later."""
    kinds = ["plain", "custom", "customsort"]

    def forests(n):
        # sequences of trees using exactly n nodes
        if n == 0:
            yield []
            return
        for first in range(1, n + 1):
            for t in trees(first):
                for rest in forests(n - first):
                    yield [t] + rest

    def trees(n):
        if n == 1:
            yield ["leaf", None]
        for k in kinds:
            for f in forests(n - 1):
                yield [k, f]

    for n in range(1, max_nodes + 1):
        yield from trees(n)


def assign_ids(tree, ids):
    if tree[0] == "leaf":
        return ["leaf", next(ids)]
    return [tree[0], [assign_ids(c, ids) for c in tree[1]]]


def random_tree(rng, depth, ids, dup_rate):
    kind = rng.choice(["leaf", "leaf"] + KINDS) if depth > 0 else "leaf"
    if kind == "leaf":
        if rng.random() < dup_rate:
            return ["leaf", rng.choice(ID_POOL[:4])]
        return ["leaf", next(ids)]
    return [kind, [random_tree(rng, depth - 1, ids, dup_rate) for _ in range(rng.randint(0, 4))]]


def fresh_ids(rng):
    pool = list(ID_POOL) + ["t%d" % i for i in range(40)]
    rng.shuffle(pool)

    def gen():
        yield from pool
        n = 1000
        while True:
            n += 1
            yield "u%d" % (n * 7919 % 100003)   # unordered but unique
    return gen()


def run(ctx):
    rng = ctx.rng
    n = 0
    for i in range(ctx.scale(300, 20000)):
        pool = rng.sample(["a", "b", "c", "d", "e", "0", "zz", "a.b", "B"], rng.randint(2, 7))
        k = rng.randint(1, len(pool) - 1)
        first, second = pool[:k], pool[k:]
        if rng.random() < 0.3:
            second.append(rng.choice(first))         # the second batch brings a duplicate of an earlier test
        rng.shuffle(first)
        n += 1
        ctx.execute("grow", {"kind": rng.choice(["fixture", "fixture", "plain"]), "first": first, "second": second})
    ctx.note_space("sorted, grown, sorted again: random batches of ids into a FixtureSuite / a plain suite (random)", n, False)
    n = 0
    for shape in enum_trees(4 if ctx.quick else 5):
        if not ctx.mine():
            continue
        # descending ids make every sort do real work
        ids = iter(["t9", "t7", "t5", "t3", "t1"])
        tree = assign_ids(shape, ids)
        L = leaves(tree)
        for k, keep in enumerate(([], L, L[::2], L[1:] + ["absent"])):
            n += 1
            ctx.execute("tree", {"tree": tree, "keep": keep})
            if L and k in (2, 3):
                # test_ids handed over as another kind of container; a case with a filter_by_ids of its own
                how = ["frozenset", "list", "tuple", "dict", "contains_only", "set_subclass"][n % 6]
                ctx.execute("tree", {"tree": tree, "keep": keep, "ids_as": how, "own_filter": L[:1] if n % 2 else L[-1:]})
    for shape in enum_trees(4):
        if not ctx.mine():
            continue
        # ids that compete on characters sorting before ".": the order is that of the id STRINGS
        tree = assign_ids(shape, iter(["pkg.test.T.x", "pkg.test-io.T.x", "a.b", "a-b", "a!b"]))
        if len(leaves(tree)) >= 2:
            n += 1
            ctx.execute("tree", {"tree": tree, "keep": leaves(tree)})
    ctx.note_space("every tree shape with <= %d nodes over {plain, custom, custom+sort_tests} x 4 id "
                   "subsets (and once more with ids competing on characters that sort before '.')" % (4 if ctx.quick else 5), n)
    ctx.notes["random_cases"] = True
    for i in range(ctx.scale(5000, 300000)):
        if ctx.out_of_time():
            break
        ids = fresh_ids(rng)
        tree = random_tree(rng, rng.randint(0, 4), ids, rng.choice([0, 0, 0.15]))
        L = leaves(tree)
        keep = [x for x in L if rng.random() < 0.5] + (["absent"] if rng.random() < 0.3 else [])
        case = {"tree": tree, "keep": keep}
        if rng.random() < 0.4:
            case["ids_as"] = rng.choice(["frozenset", "list", "tuple", "dict", "contains_only", "set_subclass"])
        if rng.random() < 0.3 and L:
            case["own_filter"] = sorted(set(rng.sample(L, rng.randint(1, min(3, len(L))))))
        ctx.execute("tree", case)
    for i in range(ctx.scale(250, 20000)):
        if ctx.out_of_time():
            break
        ids = fresh_ids(rng)
        tree = random_tree(rng, rng.randint(1, 3), ids, rng.choice([0, 0, 0.2]))
        if tree[0] == "leaf":
            tree = ["plain", [tree]]
        L = leaves(tree)
        keep = [x for x in dict.fromkeys(L) if rng.random() < 0.5] + (["absent id"] if rng.random() < 0.3 else [])
        rng.shuffle(keep)
        ctx.execute("run", {"tree": tree, "keep": keep, "style": rng.randrange(6),
                            "after_failed_import": rng.random() < 0.3, "via_load_tests": rng.random() < 0.4,
                            "bare_runner": rng.choice([False, False, False, False, True, True, "no_tb_locals"]),
                            "argv_from_sys": rng.random() < 0.25, "falsy_stdout": rng.random() < 0.3,
                            "module_as": rng.choice([None, None, "name", "dotted"])})
    for how in ("shared", "wrapping"):
        for k in (1, 2, 3, 6, 12):
            ctx.execute("iter_special", {"how": how, "n": k})
    for top in KINDS:
        if top == "fixturesuite":
            continue
        for keep in ([], ["b"], ["a", "c"], ["c", "absent"]):
            for via in (True, False):
                tree = [top, [["leaf", "a"], ["plain", [["leaf", "b"]]], ["leaf", "c"]]]
                ctx.execute("run", {"tree": tree, "keep": keep, "style": 0, "via_load_tests": via,
                                    "bare_runner": bool(len(keep) % 2)})
                ctx.execute("run", {"tree": tree, "keep": keep, "style": 0, "via_load_tests": via,
                                    "module_as": "dotted" if len(keep) % 2 else "name"})
    for i in range(ctx.scale(3, 32)):
        ids = fresh_ids(rng)
        tree = ["plain", [["leaf", next(ids)], ["custom", [["leaf", next(ids)], ["leaf", next(ids)]]],
                          ["leaf", "mod.T.test_x (slow)"]]]
        L = leaves(tree)
        ctx.execute("subprocess", {"tree": tree, "keep": [x for x in L if rng.random() < 0.6]})
    if ctx.shard == 0:
        ctx.execute("discover", {"modules": {"b": ["z", "a"], "a": ["m", "c", "b"]},
                                 "keep": ["tvmpkg.test_a.T.test_c", "tvmpkg.test_b.T.test_z", "absent.id"]})
