"""C20 - Deferred matchers classify fired / failed / unfired without firing anything."""

import gc
import itertools
import unittest

from .. import matchgen as G
from .. import recorders
from . import c06

PROPERTY = "C20"
LEVEL = "exploration"
RULE = (
    "a case is (initial Deferred state, history of operations).  States: unfired; fired with a value "
    "(None, 0, text, a list, the result of a nested fired Deferred); failed with an exception; fired "
    "but paused on an unfired inner Deferred; each with 0..3 pass-through callbacks attached before.  "
    "Operations (all orders of length <= 4, random beyond): match has_no_result() / succeeded(m) / "
    "failed(m) with inner matchers from the C06 generator, fire, fail, add a recording callback, "
    "extract_result.  A small state model (unfired / value v / failure e, with the transition "
    "'failure --inspected by succeeded/failed--> value None') predicts every verdict and what later "
    "callbacks receive; a Twisted log observer plus gc.collect() detects 'Unhandled error in "
    "Deferred'.  The 'exactly one of three' clause is evaluated on three fresh Deferreds in the same "
    "state.  A second sub-check runs twin programs (stage returns/raises directly vs. returns an "
    "already-fired Deferred) under SynchronousDeferredRunTest.  Distinct = canonical JSON; "
    "non-trivial = at least one matcher applied to a fired or failed Deferred."
)
REQUIRED = {
    "mon:exactly-one-of-three-matches": 500,
    "mon:verdict==state-and-inner-matcher": 2000,
    "mon:matching-never-fires": 2000,
    "mon:later-callbacks-see-the-original-result": 500,
    "mon:inspected-failure-not-logged-unhandled": 200,
    "mon:extract_result": 200,
    "mon:sync-runner.same-outcome-as-direct": 200,
}
ASSUMPTIONS = [
    "fire / fail are only issued on unfired Deferreds (firing twice is a Twisted error)",
    "succeeded() / failed() turning an inspected failure into a None success is the documented way of "
    "marking it handled; the model has that transition",
    "inner matchers for failures look at failure.value through AfterPreprocessing",
]

EXCS = {"ValueError": ValueError, "KeyError": KeyError, "RuntimeError": RuntimeError,
        "IndexError": IndexError, "LookupError": LookupError,
        # a Deferred can just as well have failed with one of these (a worker that was interrupted)
        "KeyboardInterrupt": KeyboardInterrupt, "SystemExit": SystemExit}
VALUES = [None, 0, 3, "x", [1, 2], {"tuple": [1, 2]}, {"tuple": []}, {"tuple": ["%s", "%d"]}]


def dv(v):
    """JSON has no tuples: {"tuple": [...]} stands for one (a result like any other); {"huge": n} for 10**n, an int
    Python refuses to turn into decimal text (more than 4300 digits) - a result like any other as long as nobody
    needs its repr."""
    if isinstance(v, dict) and "huge" in v:
        return 10 ** v["huge"]
    return tuple(v["tuple"]) if isinstance(v, dict) and "tuple" in v else v


def inner_build(spec, env):
    from testtools.matchers import AfterPreprocessing, IsInstance, Always, Never
    if spec[0] == "value":
        return G.build(spec[1], env)
    if spec[0] == "failure_is":
        f = lambda failure: failure.value  # noqa: E731
        return AfterPreprocessing(f, IsInstance(EXCS[spec[1]]))
    if spec[0] == "always":
        return Always()
    if spec[0] == "empty_never":
        return EmptyNever()
    if spec[0] == "raising":
        return RaisingInner()
    return Never()


class EqError(Exception):
    """A value-style exception (a dataclass exception, an API error carrying a status): equal when the fields are."""

    def __eq__(self, other):
        return type(other) is EqError and self.args == other.args

    def __hash__(self):
        return hash(self.args)


class InnerBroke(Exception):
    pass


class RaisingInner:
    """An inner matcher that fails while it inspects what it is given (AfterPreprocessing(lambda f: f.value.code, ...)
    on an exception without .code): the error leaves match() - the Deferred is still only LOOKED at: a failure that
    was inspected is not logged as unhandled later, nothing is fired."""

    def match(self, value):
        raise InnerBroke("the inner matcher broke")

    def __str__(self):
        return "RaisingInner()"


class EmptyNever:
    """A user-defined matcher that is falsy (a list-like 'matches any of these' over no alternatives): it matches
    nothing, and it is still the matcher that was asked for."""

    def __len__(self):
        return 0

    def __str__(self):
        return "AnyOf()"

    def match(self, value):
        from testtools.matchers import Mismatch
        return Mismatch("no alternative given")


def inner_sem(spec, state, env):
    if spec[0] == "always":
        return True
    if spec[0] in ("never", "empty_never"):
        return False
    if spec[0] == "raising":
        return "raises"
    if spec[0] == "value":
        v = state[1]
        if not isinstance(v, int) or isinstance(v, bool):
            return None  # inner matcher out of its domain: not asked
        return G.sem(spec[1], v, env)
    if spec[0] == "failure_is":
        return issubclass(EXCS[state[1]], EXCS[spec[1]])


def _transformed(state):
    if state[0] == "failure":
        return ("value", 1)
    v = state[1] if len(state) > 1 else None
    return ("value", v + 10 if isinstance(v, int) and not isinstance(v, bool) else "t")


def make_deferred(init):
    from twisted.internet import defer
    d = defer.Deferred()
    for _ in range(init.get("callbacks_before", 0)):
        d.addBoth(lambda r: r)
    st = init["state"]
    inner = None
    if st == "value":
        if init.get("nested"):
            d2 = defer.succeed(dv(init["value"]))
            d.callback(None)
            d.addCallback(lambda _: d2)
        else:
            d.callback(dv(init["value"]))
        state = ("value", dv(init["value"]))
    elif st == "failure":
        if init.get("how") == "c_callable":
            # the callback that raised is not Python code: the failure's traceback has Twisted's own frames only
            d.addCallback(int)
            d.callback("not a number")          # int("not a number") -> ValueError
        elif init.get("how") == "never_raised":
            from twisted.python.failure import Failure
            d.errback(Failure(EXCS[init["exc"]]("boom"), EXCS[init["exc"]], None))   # no traceback at all
        else:
            d.errback(EXCS[init["exc"]]("boom"))
        state = ("failure", init["exc"])
    elif st == "paused":
        inner = defer.Deferred()
        d.callback(None)
        d.addCallback(lambda _: inner)
        state = ("unfired",)
    else:
        state = ("unfired",)
    return d, state, inner


def norepr(state):
    return state[0] == "value" and isinstance(state[1], int) and state[1].bit_length() > 10000


def x_history(ctx, case):
    from twisted.python import log as tlog
    from testtools.twistedsupport import has_no_result, succeeded, failed
    from testtools.twistedsupport._deferred import extract_result, DeferredNotFired
    E = c06.env()
    init, ops = case["init"], case["ops"]
    detail = lambda: {"case": case}  # noqa: E731
    logged = []

    def observer(event):
        if event.get("isError") and "Unhandled error in Deferred" in repr(event.get("why", "")) + \
                repr(event.get("message", "")) + repr(event.get("log_format", "")):
            logged.append(repr(event.get("log_failure") or event.get("failure")))
    tlog.addObserver(observer)
    nontrivial = False
    try:
        # ---- exactly one of three on fresh Deferreds in the same state ---------------------------
        from testtools.matchers import Always
        verdicts = []
        for mk in (has_no_result, lambda: succeeded(Always()), lambda: failed(Always())):
            d, state, inner = make_deferred(init)
            try:
                verdicts.append(mk().match(d) is None)
            except BaseException as e:  # noqa - a matcher reports, it never raises what the Deferred holds
                verdicts.append("match raised %r" % (e,))
            d.addErrback(lambda _: None)
        want = [state[0] == "unfired", state[0] == "value", state[0] == "failure"]
        if norepr(state):
            # the two that do not match would have to put the result's repr into their mismatch - there is none to be
            # had; the one that matches needs no repr
            ctx.check(verdicts[1] is True, "exactly-one-of-three-matches",
                      lambda: {"verdicts": verdicts, "want": want, **detail()})
        else:
            ctx.check(verdicts == want and sum(verdicts) == 1, "exactly-one-of-three-matches",
                      lambda: {"verdicts": verdicts, "want": want, **detail()})
        # ---- the history on one Deferred -------------------------------------------------------------
        d, state, inner = make_deferred(init)
        inspected_failure = False
        received = []
        expected_received = []
        pending_cb = []  # indices of callbacks attached while unfired
        for i, op in enumerate(ops):
            k = op[0]
            if k == "match":
                called_before = d.called
                paused_before = d.paused
                which, spec = op[1], op[2] if len(op) > 2 else None
                if which == "no_result":
                    m = has_no_result()
                    want = state[0] == "unfired"
                elif which == "succeeded":
                    m = succeeded(inner_build(spec, E))
                    want = state[0] == "value" and inner_sem(spec, state, E)
                    if state[0] == "value" and inner_sem(spec, state, E) is None:
                        want = None
                else:
                    m = failed(inner_build(spec, E))
                    want = state[0] == "failure" and inner_sem(spec, state, E)
                if want is None or (norepr(state) and not want):
                    continue        # (a mismatch over a result that has no repr: cannot be described, not asked for)
                try:
                    mm = m.match(d)
                    got = mm is None
                except BaseException as e:  # noqa - a matcher reports, it never raises what the Deferred holds
                    got = "match raised %r" % (e,)
                if state[0] != "unfired":
                    nontrivial = True
                if want == "raises":
                    want = "match raised InnerBroke('the inner matcher broke')"      # (consulted: its error leaves match())
                    ctx.check(got == want, "verdict==state-and-inner-matcher",
                              lambda: {"op": op, "at": i, "state": state, "got": got, "want": want, **detail()})
                else:
                    ctx.check(got == bool(want), "verdict==state-and-inner-matcher",
                          lambda: {"op": op, "at": i, "state": state, "got": got, "want": want, **detail()})
                ctx.check(d.called == called_before and d.paused == paused_before, "matching-never-fires",
                          lambda: {"op": op, "called before": called_before, "after": d.called, **detail()})
                if which in ("succeeded", "failed") and state[0] == "failure":
                    inspected_failure = True
                    state = ("value", None)
            elif k in ("fire", "fail"):
                target = inner if inner is not None else d
                if k == "fire":
                    target.callback(dv(op[1]))
                    state = ("value", dv(op[1]))
                else:
                    target.errback(EXCS[op[1]]("late"))
                    state = ("failure", op[1])
                # callbacks attached while unfired run now, in attachment order; an extract_result()
                # issued on the unfired Deferred left consuming callbacks behind (it is documented
                # for fired Deferreds only), after which the result is None
                for j, what in pending_cb:
                    if what == "swallow":
                        state = ("value", None)
                    elif what == "transform":
                        state = _transformed(state)
                    else:
                        expected_received[j] = state
                pending_cb = []
            elif k == "add_callback":
                idx = len(received)
                received.append(None)

                def rec(r, idx=idx):
                    from twisted.python.failure import Failure
                    received[idx] = ("failure", type(r.value).__name__) if isinstance(r, Failure) else ("value", r)
                    return r
                d.addBoth(rec)
                if state[0] == "unfired":
                    expected_received.append(None)
                    pending_cb.append((idx, "record"))
                else:
                    expected_received.append(state)
            elif k == "add_transform":
                # a callback that CHANGES the result: a value v becomes v + 10 (or "t" for non-ints), a failure
                # is recovered into the value 1.  What a later match sees is the result as it is THEN.
                def transform(r):
                    from twisted.python.failure import Failure
                    if isinstance(r, Failure):
                        return 1
                    return r + 10 if isinstance(r, int) and not isinstance(r, bool) else "t"
                d.addBoth(transform)
                if state[0] == "unfired":
                    pending_cb.append((None, "transform"))
                else:
                    state = _transformed(state)
            elif k == "extract":
                try:
                    got = ("value", extract_result(d))
                except DeferredNotFired:
                    got = ("not-fired",)
                except BaseException as e:  # noqa
                    got = ("raise", type(e).__name__)
                want = {"unfired": ("not-fired",), "value": ("value", state[1] if len(state) > 1 else None),
                        "failure": ("raise", state[1] if len(state) > 1 else None)}[state[0]]
                ctx.check(got == want, "extract_result", lambda: {"at": i, "got": got, "want": want, **detail()})
                if state[0] != "unfired":
                    state = ("value", None)  # extract_result consumes the result
                else:
                    pending_cb.append((None, "swallow"))
        ctx.check(received == expected_received, "later-callbacks-see-the-original-result",
                  lambda: {"received": received, "expected": expected_received, **detail()})
        final_failure = state[0] == "failure"
        del d, inner
        if inspected_failure or init.get("how") == "c_callable":
            # (a failure raised under a C callable holds Twisted's frames, hence a reference cycle: collect it now,
            # so that an unhandled-error report of THIS case is not attributed to a later one)
            gc.collect()
        if inspected_failure and not final_failure:
            ctx.check(not logged, "inspected-failure-not-logged-unhandled", lambda: {"logged": logged, **detail()})
    finally:
        tlog.removeObserver(observer)
    return nontrivial


def x_sync(ctx, case):
    """SynchronousDeferredRunTest: returning an already-fired Deferred == returning / raising directly."""
    import testtools
    from twisted.internet import defer
    from testtools.twistedsupport import SynchronousDeferredRunTest
    stage, kind = case["stage"], case["kind"]

    def behave(self, deferred):
        if kind == "ok":
            if deferred and case.get("shape") == "list_callback":
                return defer.DeferredList([defer.succeed(7)])
            return defer.succeed(7) if deferred else 7
        if kind == "multi":
            import sys
            from testtools import MultipleExceptions
            infos = []
            for e in (AssertionError("F1"), ValueError("E2")):
                try:
                    raise e
                except Exception:
                    infos.append(sys.exc_info())
            exc = MultipleExceptions(*infos)
        elif kind == "eqerr":
            exc = EqError(503, "unavailable")      # a new object every time - and equal to every other of its kind
        else:
            exc = {"fail": AssertionError("F"), "error": ValueError("E"), "skip": unittest.SkipTest("S")}[kind]
        if deferred:
            shape = case.get("shape", "plain")
            if shape == "subclass":
                class MyDeferred(defer.Deferred):
                    """An already-fired Deferred of a subclass (DeferredList, a project's own class...)."""
                d = MyDeferred()
                d.errback(exc)
                return d
            if shape == "list_callback":
                # what gatherResults / DeferredList return, failed by a callback added to it
                dl = defer.DeferredList([defer.succeed(1)])

                def boom(_):
                    raise exc
                return dl.addCallback(boom)
            return defer.fail(exc)
        raise exc

    outs = []
    for deferred in (False, True):
        class T(testtools.TestCase):
            # the reference is the plain runner with the stage returning / raising directly
            run_tests_with = SynchronousDeferredRunTest if deferred else testtools.RunTest

            def setUp(self):
                super().setUp()
                if stage == "cleanup" or case.get("also_cleanup"):
                    self.addCleanup(behave, self, deferred)
                if stage == "setUp":
                    return behave(self, deferred)

            def test(self):
                if stage == "test":
                    return behave(self, deferred)

            def tearDown(self):
                super().tearDown()
                if stage == "tearDown":
                    return behave(self, deferred)
        log = recorders.Log()
        propagated = None
        try:
            T("test").run(recorders.ExtRecorder(log))
        except BaseException as e:  # noqa
            propagated = type(e).__name__
        out = [(e.name, sorted((e.payload or {}).get("details") or {})) for e in log.events
               if e.name in recorders.OUTCOMES]
        outs.append((log.names(), out, propagated))
    ctx.check(outs[0] == outs[1], "sync-runner.same-outcome-as-direct",
              lambda: {"direct": outs[0], "deferred": outs[1], "case": case})
    return kind != "ok"


SUBCHECKS = {"history": x_history, "sync": x_sync}

INITS = [{"state": "unfired"}, {"state": "paused"}]
for v in VALUES:
    INITS.append({"state": "value", "value": v})
INITS.append({"state": "value", "value": 5, "nested": True})
INITS.append({"state": "value", "value": 0, "callbacks_before": 2})
for e in EXCS:
    INITS.append({"state": "failure", "exc": e})
INITS.append({"state": "failure", "exc": "ValueError", "callbacks_before": 3})
INITS.append({"state": "failure", "exc": "ValueError", "how": "c_callable"})
INITS.append({"state": "failure", "exc": "KeyError", "how": "never_raised"})

INNER = [["always"], ["never"], ["empty_never"], ["value", ["Equals", 3]], ["value", ["LessThan", 2]], ["failure_is", "ValueError"],
         ["failure_is", "KeyError"]]
OPS = [["match", "no_result"], ["add_callback"], ["add_transform"], ["extract"], ["fire", 3], ["fail", "KeyError"]]
for s in INNER:
    if s[0] != "failure_is":
        OPS.append(["match", "succeeded", s])
    if s[0] != "value":
        OPS.append(["match", "failed", s])


def legal(init, ops):
    fired = init["state"] in ("value", "failure")
    for op in ops:
        if op[0] in ("fire", "fail"):
            if fired:
                return False
            fired = True
    return True


def run(ctx):
    rng = ctx.rng
    n = 0
    maxlen = 3 if ctx.quick else 4
    for init in INITS:
        for L in range(0, maxlen + 1):
            for seq in itertools.product(range(len(OPS)), repeat=L):
                ops = [OPS[i] for i in seq]
                if not legal(init, ops):
                    continue
                if ctx.quick and L == 3 and (n + ctx.seed) % 6:
                    n += 1
                    continue
                if not ctx.mine():
                    continue
                n += 1
                ctx.execute("history", {"init": init, "ops": ops}, sample=(n % 1499 == 0))
    ctx.note_space("%d initial states x all legal operation sequences of length <= %d over %d operations%s"
                   % (len(INITS), maxlen, len(OPS), " (length 3: 1/6 slice)" if ctx.quick else ""), n, not ctx.quick)
    # matched while unfired, then the chain grows (a callback changing the result), then it fires, then it is
    # matched again: the second match sees the result as it is then
    n = 0
    matches = [["match", "no_result"], ["match", "succeeded", ["always"]], ["match", "failed", ["always"]],
               ["match", "succeeded", ["value", ["Equals", 3]]], ["match", "succeeded", ["value", ["Equals", 13]]]]
    for m1 in matches:
        for mid in (["add_transform"], ["add_callback"], ["add_transform"]):
            for fire in (["fire", 3], ["fail", "KeyError"], ["fail", "KeyboardInterrupt"]):
                for m2 in matches:
                    for init in ({"state": "unfired"}, {"state": "unfired", "callbacks_before": 2}):
                        if ctx.mine():
                            n += 1
                            ctx.execute("history", {"init": init, "ops": [m1, mid, fire, m2, ["add_callback"]]})
    ctx.note_space("match, grow the chain, fire, match again: 5 x 3 x 3 x 5 x 2 five-step histories", n)
    # an inner matcher that breaks while it looks at the result / the failure
    n = 0
    rs, rf = ["match", "succeeded", ["raising"]], ["match", "failed", ["raising"]]
    for init in INITS:
        for seq in ([rs], [rf], [rf, ["add_callback"]], [rf, rf], [rs, rf], [rf, ["match", "failed", ["always"]]],
                    [["add_callback"], rf, ["extract"]], [rs, ["match", "succeeded", ["always"]]], [["fire", 3], rs], [["fail", "KeyError"], rf],
                    [["fail", "KeyError"], rf, ["add_callback"]]):
            if legal(init, seq) and ctx.mine():
                n += 1
                ctx.execute("history", {"init": init, "ops": seq})
    ctx.note_space("an inner matcher that raises, under succeeded() / failed(): %d initial states x 11 short histories" % len(INITS), n)
    # a result whose repr cannot be had (an int of 4301 digits): matchers that match do not need it
    n = 0
    quiet = [["match", "succeeded", ["always"]], ["match", "failed", ["always"]], ["match", "no_result"],
             ["add_callback"], ["extract"]]
    for init in ({"state": "value", "value": {"huge": 4300}}, {"state": "value", "value": {"huge": 4300}, "callbacks_before": 2}):
        for L in (1, 2, 3):
            for seq in itertools.product(quiet, repeat=L):
                if ctx.mine():
                    n += 1
                    ctx.execute("history", {"init": init, "ops": list(seq)})
    for L in (1, 2):
        for seq in itertools.product(quiet, repeat=L):
            if ctx.mine():
                n += 1
                ctx.execute("history", {"init": {"state": "unfired"}, "ops": [["fire", {"huge": 4300}]] + list(seq)})
    ctx.note_space("a result of 4301 decimal digits x matchers that match / do not look at it, sequences <= 3", n)
    n = 0
    for stage in ("setUp", "test", "tearDown", "cleanup"):
        for kind in ("ok", "fail", "error", "skip", "multi"):
            if ctx.mine():
                n += 1
                for rep in range(15 if ctx.quick else 60):
                    ctx.execute("sync", {"stage": stage, "kind": kind, "rep": rep,
                                         "shape": ["plain", "subclass", "list_callback"][rep % 3]})
    for stage in ("setUp", "test", "tearDown"):
        for shape in ("plain", "subclass", "list_callback"):
            if ctx.mine():
                n += 1
                # the stage and a clean-up fail with two distinct exceptions that compare equal: two errors, two tracebacks
                ctx.execute("sync", {"stage": stage, "kind": "eqerr", "also_cleanup": True, "shape": shape})
                ctx.execute("sync", {"stage": stage, "kind": "error", "also_cleanup": True, "shape": shape})
    ctx.note_space("SynchronousDeferredRunTest twins: 4 stages x 5 behaviours x {Deferred, a Deferred subclass, a "
                   "DeferredList failed by its own callback}", n)
    ctx.notes["random_cases"] = True
    for i in range(ctx.scale(2000, 200000)):
        if ctx.out_of_time():
            break
        init = dict(rng.choice(INITS))
        init["callbacks_before"] = rng.randint(0, 3)
        ops = []
        fired = init["state"] in ("value", "failure")
        for _ in range(rng.randint(1, 8)):
            op = rng.choice(OPS)
            if op[0] in ("fire", "fail"):
                if fired:
                    continue
                fired = True
                op = ["fire", rng.choice([0, 1, 3, 5, {"tuple": [1, 2]}])] if op[0] == "fire" else ["fail", rng.choice(list(EXCS))]
            elif op[0] == "match" and op[1] == "succeeded" and rng.random() < 0.5:
                op = ["match", "succeeded", ["value", G.random_expr(rng, "int", rng.randint(0, 2))]]
            ops.append(op)
        ctx.execute("history", {"init": init, "ops": ops})
