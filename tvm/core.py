"""tvm.core - shared runtime of the testtools verification monitors.

Everything here is plain standard library.  A *check* is a module
``tvm.checks.cXX`` exposing

    PROPERTY = "CXX"
    LEVEL    = "exploration" | "fault_enumeration"
    RULE     = "<how cases are generated; what makes one distinct/non-trivial>"
    REQUIRED = {"counter-name": minimum, ...}   # deciding monitors
    ASSUMPTIONS = [...]
    SUBCHECKS = {"name": exec_case}             # exec_case(ctx, case) re-executes one case
    def run(ctx): ...                           # generates cases, calls ctx.execute(name, case)

``ctx.execute`` runs one JSON-able case through ``SUBCHECKS[name]`` with
bookkeeping; monitors report through ``ctx.violation``.
"""

import collections
import hashlib
import importlib
import json
import os
import random
import subprocess
import sys
import threading
import time
import traceback

VERIF_ROOT = os.path.dirname(os.path.dirname(os.path.abspath(__file__)))
REPO_ROOT = os.path.abspath(os.environ.get("TVM_REPO", "/repo"))
EVIDENCE_DIR = os.environ.get("TVM_EVIDENCE_DIR") or os.path.join(VERIF_ROOT, "evidence")
REPLAY_DIR = os.environ.get("TVM_REPLAY_DIR") or os.path.join(VERIF_ROOT, "replays")
KNOWN_FINDINGS = os.path.join(VERIF_ROOT, "known_findings.json")
GUARD = "TESTTOOLS_VERIF"

MAX_REPLAYS = 5
MAX_SAMPLES = 6


class Inconclusive(Exception):
    """The deciding monitor could not be reached / harness cannot run."""


ENV_VARIANT = os.environ.get("TVM_ENV_VARIANT", "")
# third-party / interpreter modules whose own warnings are none of testtools' business
_FOREIGN = r"(twisted|fixtures|pbr|zope|constantly|incremental|attr|attrs|hamcrest|pkg_resources|setuptools|_pytest|pytest)(\..*)?$"


def apply_env_variant():
    """The hostile process environment of the environment-variant child: warnings are errors (except those a
    third-party package attributes to itself), the local time zone is far from UTC (and not a whole hour), and
    the interpreter was started with -O (asserts stripped) by the parent."""
    if not ENV_VARIANT:
        return
    import time as _time
    import warnings
    os.environ["TZ"] = "NST+3:30NDT+2:30,M3.2.0/2,M11.1.0/2"      # POSIX spelling: no tzdata needed
    _time.tzset()
    warnings.resetwarnings()
    warnings.simplefilter("error")
    warnings.filterwarnings("ignore", module=_FOREIGN)
    warnings.filterwarnings("ignore", category=ResourceWarning)
    warnings.filterwarnings("ignore", category=ImportWarning)


def pin_repo():
    """Make ``import testtools`` load the working tree under REPO_ROOT."""
    sys.dont_write_bytecode = True
    os.environ.setdefault(GUARD, "1")
    if REPO_ROOT in sys.path:
        sys.path.remove(REPO_ROOT)
    sys.path.insert(0, REPO_ROOT)
    for name in list(sys.modules):
        if name == "testtools" or name.startswith("testtools."):
            raise Inconclusive("testtools imported before pinning")
    import testtools

    where = os.path.abspath(testtools.__file__)
    if not where.startswith(REPO_ROOT + os.sep):
        raise Inconclusive(f"testtools imported from {where}, not {REPO_ROOT}")
    apply_env_variant()
    return testtools


def tree_identity():
    def git(*args):
        try:
            return subprocess.run(
                ["git", "-C", REPO_ROOT] + list(args),
                capture_output=True, text=True, timeout=20,
            ).stdout
        except Exception:
            return ""

    head = git("rev-parse", "HEAD").strip()
    diff = git("diff", "HEAD")
    return {
        "repo": REPO_ROOT,
        "head": head,
        "worktree_diff_sha1": hashlib.sha1(diff.encode()).hexdigest() if diff else None,
    }


def canon(obj):
    return json.dumps(obj, sort_keys=True, default=repr, ensure_ascii=True)


def jsonable(obj, depth=0):
    """Best-effort conversion for evidence / replay files."""
    if depth > 12:
        return repr(obj)
    if isinstance(obj, int) and not isinstance(obj, bool) and obj.bit_length() > 10000:
        return "<an int of %d bits>" % obj.bit_length()       # (no decimal text to be had: int->str limit)
    if isinstance(obj, (str, int, float, bool)) or obj is None:
        return obj
    if isinstance(obj, bytes):
        return {"__bytes__": obj.hex()}
    if isinstance(obj, (list, tuple)):
        return [jsonable(x, depth + 1) for x in obj]
    if isinstance(obj, (set, frozenset)):
        return {"__set__": sorted((jsonable(x, depth + 1) for x in obj), key=canon)}
    if isinstance(obj, dict):
        return {str(k): jsonable(v, depth + 1) for k, v in obj.items()}
    try:
        return repr(obj)
    except Exception as e:  # noqa
        return "<%s whose repr raises %s>" % (type(obj).__name__, type(e).__name__)


class Ctx:
    def __init__(self, module, tier, seed, shard=0, nshards=1, replaying=False):
        self.module = module
        self.pid = module.PROPERTY
        self.tier = tier
        self.seed = seed
        self.shard = shard
        self.nshards = nshards
        self.replaying = replaying
        self.rng = random.Random(f"{self.pid}/{seed}/{shard}")
        self.counters = collections.Counter()
        self.distinct = set()
        self.evaluations = 0
        self.samples = []
        self.violations = []
        self.known_hits = collections.OrderedDict()
        self.notes = {}
        self.exhaustive_spaces = []
        self.t0 = time.monotonic()
        self._index = 0
        self._current = None
        self.budget_s = float(os.environ.get(
            "TVM_BUDGET_S", "45" if tier == "quick" else "420"))
        self.known = load_known(self.pid)
        self.inconclusive = []

    # -- scale helpers ------------------------------------------------
    @property
    def quick(self):
        return self.tier == "quick"

    def scale(self, quick, thorough):
        """Number of random cases for this shard."""
        if self.quick:
            # (quick is only ever sharded for the environment-variant child, which does a slice of everything)
            return max(1, quick // self.nshards)
        return max(1, thorough // self.nshards)

    def mine(self):
        """Round-robin ownership of enumerated cases between shards."""
        i = self._index
        self._index += 1
        return i % self.nshards == self.shard

    def out_of_time(self):
        if time.monotonic() - self.t0 > self.budget_s:
            self.notes["budget_exhausted"] = True
            return True
        return False

    def sub_rng(self, *key):
        return random.Random(f"{self.pid}/{self.seed}/{self.shard}/{key!r}")

    # -- bookkeeping --------------------------------------------------
    def count(self, key, n=1):
        self.counters[key] += n

    def note_space(self, name, size, complete=True):
        self.exhaustive_spaces.append({"space": name, "size": size, "complete": complete})

    def execute(self, sub, case, nontrivial=True, sample=True):
        """Run one case through its sub-check with bookkeeping."""
        fn = self.module.SUBCHECKS[sub]
        self._current = (sub, case)
        self.evaluations += 1
        self.count("cases:" + sub)
        try:
            result = fn(self, case)
        except Inconclusive:
            raise
        except Warning as w:
            # (environment-variant child only - elsewhere warnings are not exceptions.)  A warning that testtools'
            # own code issues and that, once warnings are errors, escapes into the caller on in-domain input: the
            # behaviour depends on the state of the warnings filters.  Warnings issued from anywhere else stay what
            # they are below - a harness problem.
            tb = traceback.extract_tb(w.__traceback__)
            inside = [f for f in tb if os.path.abspath(f.filename).startswith(os.path.join(REPO_ROOT, "testtools") + os.sep)]
            if ENV_VARIANT and inside:
                self.violation("environment.behaviour-independent-of-the-warnings-filters",
                               {"escaped": repr(w), "issued in": "%s:%d %s" % (inside[-1].filename, inside[-1].lineno, inside[-1].name),
                                "traceback": traceback.format_exc(limit=8)})
                self.count("mon:environment.behaviour-independent-of-the-warnings-filters")
                result = None
            else:
                self.inconclusive.append(f"harness error in {sub}: {traceback.format_exc(limit=6)}")
                self.count("harness_errors")
                result = None
                if len(self.inconclusive) > 20:
                    raise Inconclusive("too many harness errors; first: " + self.inconclusive[0])
        except Exception:
            # The *harness* crashed (monitors report through ctx.violation).
            # That is not a verdict about testtools.
            self.inconclusive.append(
                f"harness error in {sub}: {traceback.format_exc(limit=6)}")
            self.count("harness_errors")
            result = None
            if len(self.inconclusive) > 20:
                raise Inconclusive("too many harness errors; first: " + self.inconclusive[0])
        finally:
            self._current = None
        if result is False:
            nontrivial = False
        if nontrivial:
            self.distinct.add(hashlib.blake2b(
                canon([sub, case]).encode(), digest_size=8).digest())
        if sample and len(self.samples) < MAX_SAMPLES and self.rng.random() < 0.02 + (
                0.5 if len(self.samples) < 2 else 0):
            self.samples.append({"sub": sub, "case": jsonable(case)})
        return result

    def violation(self, what, detail=None, mechanism=None):
        """Report a violation for the case being executed.

        ``mechanism`` names the mechanism predicate that the *check* evaluated
        to be true for this violation; it is only used to match entries of
        known_findings.json.
        """
        sub, case = self._current if self._current else ("?", None)
        if mechanism is not None and mechanism in self.known:
            self.known_hits.setdefault(mechanism, 0)
            self.known_hits[mechanism] += 1
            self.count("known:" + mechanism)
            return
        self.count("violation:" + what)
        rec = {"property": self.pid, "sub": sub, "what": what,
               "case": jsonable(case), "detail": jsonable(detail),
               "seed": self.seed, "tier": self.tier}
        if ENV_VARIANT:
            rec["environment"] = ENV_VARIANT       # observed in the environment-variant child: replayed there
        self.violations.append(rec)

    def check(self, cond, what, detail=None, mechanism=None, counter=None):
        """Evaluate one monitor predicate."""
        self.count("mon:" + (counter or what))
        if not cond:
            self.violation(what, detail() if callable(detail) else detail, mechanism)
        return cond

    # -- finishing ----------------------------------------------------
    def merge(self, other):
        """Merge a shard's exported state (dict) into this context."""
        self.counters.update(other["counters"])
        self.distinct.update(bytes.fromhex(h) for h in other["distinct"])
        self.evaluations += other["evaluations"]
        for s in other["samples"]:
            if len(self.samples) < MAX_SAMPLES:
                self.samples.append(s)
        self.violations.extend(other["violations"])
        for k, v in other["known_hits"].items():
            self.known_hits[k] = self.known_hits.get(k, 0) + v
        self.inconclusive.extend(other["inconclusive"])
        for sp in other["spaces"]:
            if sp not in self.exhaustive_spaces:
                self.exhaustive_spaces.append(sp)
        self.notes.update(other["notes"])

    def export(self):
        return {
            "counters": dict(self.counters),
            "distinct": [h.hex() for h in self.distinct],
            "evaluations": self.evaluations,
            "samples": self.samples,
            "violations": self.violations,
            "known_hits": dict(self.known_hits),
            "inconclusive": self.inconclusive,
            "spaces": self.exhaustive_spaces,
            "notes": self.notes,
        }

    def finish(self):
        mod = self.module
        wall = time.monotonic() - self.t0
        for name, minimum in getattr(mod, "REQUIRED", {}).items():
            if self.counters.get(name, 0) < minimum:
                self.inconclusive.append(
                    f"deciding monitor {name!r} evaluated "
                    f"{self.counters.get(name, 0)} < {minimum} times")
        if self.counters.get("harness_errors"):
            pass  # already in self.inconclusive
        verdict = "violated" if self.violations else (
            "inconclusive" if self.inconclusive else "held")
        replay_paths = []
        if self.violations and not self.replaying:
            os.makedirs(REPLAY_DIR, exist_ok=True)
            for i, rec in enumerate(self.violations[:MAX_REPLAYS]):
                path = os.path.join(REPLAY_DIR, f"{self.pid}-{self.tier}-{self.seed}-{i}.json")
                with open(path, "w") as f:
                    json.dump(rec, f, indent=1)
                replay_paths.append(path)
        if not self.samples and self.evaluations:
            self.samples.append({"note": "no case was sampled"})
        coverage = {
            "evaluations": self.evaluations,
            "distinct_nontrivial": len(self.distinct),
            "rule": mod.RULE,
            "samples": self.samples,
            "exhaustive": bool(self.exhaustive_spaces) and all(
                s["complete"] for s in self.exhaustive_spaces) and not self.notes.get("random_cases"),
            "enumerated_spaces": self.exhaustive_spaces,
            "monitor_counters": {k: v for k, v in sorted(self.counters.items())},
            "verdict": verdict,
            "inconclusive_reasons": self.inconclusive[:10],
            "known_findings_hit": dict(self.known_hits),
            "violation_kinds": sorted({v["what"] for v in self.violations}),
            "replays": replay_paths,
            "tree": tree_identity(),
            "shards": self.nshards,
            "notes": self.notes,
        }
        evidence = {
            "property_id": self.pid,
            "tier": self.tier,
            "seed": self.seed,
            "level": mod.LEVEL,
            "coverage": coverage,
            "assumptions": list(getattr(mod, "ASSUMPTIONS", [])),
            "wall_s": round(wall, 3),
            "violations": len(self.violations),
        }
        if not self.replaying:
            os.makedirs(EVIDENCE_DIR, exist_ok=True)
            tmp = os.path.join(EVIDENCE_DIR, f".{self.pid}.json.tmp")
            with open(tmp, "w") as f:
                json.dump(evidence, f, indent=1, sort_keys=True)
                f.write("\n")
            os.replace(tmp, os.path.join(EVIDENCE_DIR, f"{self.pid}.json"))
        # -- report
        print(f"[{self.pid}] tier={self.tier} seed={self.seed} evaluations={self.evaluations} "
              f"distinct_nontrivial={len(self.distinct)} wall={wall:.1f}s verdict={verdict}")
        mons = {k: v for k, v in self.counters.items() if k.startswith("mon:")}
        if mons:
            top = sorted(mons.items(), key=lambda kv: -kv[1])[:8]
            print(f"[{self.pid}] monitors evaluated: " + ", ".join(f"{k[4:]}={v}" for k, v in top))
        for mech, n in self.known_hits.items():
            entry = self.known[mech]
            print(f"KNOWN-FINDING: property={self.pid} {entry['what']} "
                  f"[mechanism={mech}; observed {n}x this run]")
        if self.violations:
            kinds = collections.Counter(v["what"] for v in self.violations)
            for k, n in kinds.most_common(10):
                print(f"[{self.pid}] violated: {k} x{n}")
            first = self.violations[0]
            print(f"[{self.pid}] first witness: sub={first['sub']} case={canon(first['case'])[:600]}")
            print(f"[{self.pid}] detail: {canon(first['detail'])[:1200]}")
            for path in replay_paths or ["-"]:
                print(f"VIOLATION property={self.pid} replay={path}")
            return 1
        if self.inconclusive:
            for r in self.inconclusive[:5]:
                print(f"INCONCLUSIVE property={self.pid} reason={r}")
            return 2
        return 0


def load_known(pid):
    try:
        with open(KNOWN_FINDINGS) as f:
            data = json.load(f)
    except FileNotFoundError:
        return {}
    return {e["mechanism"]: e for e in data.get("known", []) if e["property"] == pid}


def load_check(pid):
    return importlib.import_module("tvm.checks." + pid.lower())


class Watchdog:
    """Generous wall-clock watchdog; firing is *inconclusive*, never a verdict."""

    def __init__(self, seconds, pid):
        self.seconds = seconds
        self.pid = pid
        self._timer = None

    def _fire(self):
        sys.stdout.flush()
        print(f"INCONCLUSIVE property={self.pid} reason=watchdog {self.seconds}s fired", flush=True)
        try:
            import faulthandler
            faulthandler.dump_traceback(file=sys.stderr)
        finally:
            os._exit(2)

    def __enter__(self):
        self._timer = threading.Timer(self.seconds, self._fire)
        self._timer.daemon = True
        self._timer.start()
        return self

    def __exit__(self, *exc):
        self._timer.cancel()


def run_single(pid, tier, seed, shard=0, nshards=1):
    pin_repo()
    mod = load_check(pid)
    ctx = Ctx(mod, tier, seed, shard, nshards)
    mod.run(ctx)
    return ctx


def main_check(pid, tier, seed, replay=None, jobs=None):
    wd_s = float(os.environ.get("TVM_WATCHDOG_S", "600" if tier == "quick" else "3600"))
    with Watchdog(wd_s, pid):
        try:
            if replay:
                return do_replay(pid, replay)
            mod_level_shards = 1 if tier == "quick" else int(
                jobs or os.environ.get("TVM_JOBS", "14"))
            if mod_level_shards == 1:
                ctx = run_single(pid, tier, seed)
                run_env_variant(ctx, pid, tier, seed)
                return ctx.finish()
            return run_sharded(pid, tier, seed, mod_level_shards)
        except Inconclusive as e:
            print(f"INCONCLUSIVE property={pid} reason={e}")
            return 2


ENV_SLICE = 5


def run_env_variant(parent, pid, tier, seed):
    """One more pass over a slice (1/ENV_SLICE, own random stream) of the same workload in a child interpreter whose
    process environment is hostile: `python -O`, warnings turned into errors, a local time zone 3.5 h off UTC.
    The properties do not allow the behaviour to depend on any of these.  What the child observed is merged in."""
    import tempfile
    if os.environ.get("TVM_ENV_VARIANTS", "1") == "0" or ENV_VARIANT:
        return
    tmpdir = tempfile.mkdtemp(prefix="tvm-envvar-")
    out = os.path.join(tmpdir, "env.json")
    try:
        env = dict(os.environ, TVM_ENV_VARIANT="O+warnings-as-errors+TZ")
        env.pop("PYTHONOPTIMIZE", None)
        p = subprocess.run([sys.executable, "-O", "-m", "tvm", "shard", pid, "--tier", tier, "--seed", str(seed),
                            "--shard", str(seed % ENV_SLICE), "--nshards", str(ENV_SLICE), "--out", out],
                           cwd=VERIF_ROOT, env=env, stdout=subprocess.PIPE, stderr=subprocess.STDOUT, text=True,
                           timeout=float(os.environ.get("TVM_SHARD_TIMEOUT_S", "3000")))
        if not os.path.exists(out):
            parent.inconclusive.append(f"environment-variant child produced no result (rc={p.returncode}): {p.stdout[-400:]}")
            return
        with open(out) as f:
            data = json.load(f)
        before = parent.evaluations
        parent.merge(data)
        parent.notes["environment_variant"] = {"what": "python -O, warnings as errors (third-party ones excepted), TZ 3.5 h off UTC",
                                               "evaluations": parent.evaluations - before}
    except subprocess.TimeoutExpired:
        parent.inconclusive.append("environment-variant child exceeded its time limit (watchdog)")
    finally:
        import shutil
        shutil.rmtree(tmpdir, ignore_errors=True)


def run_sharded(pid, tier, seed, nshards):
    import tempfile
    pin_repo()
    mod = load_check(pid)
    if getattr(mod, "NO_SHARDS", False):
        ctx = Ctx(mod, tier, seed)
        mod.run(ctx)
        return ctx.finish()
    parent = Ctx(mod, tier, seed, 0, nshards)
    procs = []
    tmpdir = tempfile.mkdtemp(prefix="tvm-shards-")
    try:
        for i in range(nshards):
            out = os.path.join(tmpdir, f"shard{i}.json")
            env = dict(os.environ)
            p = subprocess.Popen(
                [sys.executable, "-m", "tvm", "shard", pid, "--tier", tier, "--seed", str(seed),
                 "--shard", str(i), "--nshards", str(nshards), "--out", out],
                cwd=VERIF_ROOT, env=env, stdout=subprocess.PIPE, stderr=subprocess.STDOUT, text=True)
            procs.append((i, p, out))
        limit = float(os.environ.get("TVM_SHARD_TIMEOUT_S", "3000"))
        deadline = time.monotonic() + limit
        for i, p, out in procs:
            try:
                stdout, _ = p.communicate(timeout=max(1, deadline - time.monotonic()))
            except subprocess.TimeoutExpired:
                p.kill()
                p.communicate()
                parent.inconclusive.append(f"shard {i} exceeded {limit}s (watchdog)")
                continue
            if not os.path.exists(out):
                parent.inconclusive.append(f"shard {i} produced no result (rc={p.returncode}): {stdout[-400:]}")
                continue
            with open(out) as f:
                parent.merge(json.load(f))
    finally:
        import shutil
        shutil.rmtree(tmpdir, ignore_errors=True)
    run_env_variant(parent, pid, "quick", seed)
    return parent.finish()


def main_shard(pid, tier, seed, shard, nshards, out):
    try:
        ctx = run_single(pid, tier, seed, shard, nshards)
        data = ctx.export()
    except Inconclusive as e:
        data = Ctx(load_check(pid), tier, seed, shard, nshards).export()
        data["inconclusive"].append(str(e))
    with open(out, "w") as f:
        json.dump(data, f)
    return 0


def do_replay(pid, path):
    with open(path) as f:
        rec = json.load(f)
    if rec.get("environment") and not ENV_VARIANT:
        # the violation was observed under `python -O`, warnings as errors, a shifted time zone: replay it there
        env = dict(os.environ, TVM_ENV_VARIANT=rec["environment"])
        env.pop("PYTHONOPTIMIZE", None)
        return subprocess.run([sys.executable, "-O", "-m", "tvm", "check", pid, "--replay", path],
                              cwd=VERIF_ROOT, env=env).returncode
    pin_repo()
    mod = load_check(pid)
    ctx = Ctx(mod, rec.get("tier", "quick"), rec.get("seed", 0), replaying=True)
    case = unjson(rec["case"])
    ctx.execute(rec["sub"], case)
    if ctx.violations:
        for v in ctx.violations:
            print(f"[{pid}] replay reproduced: {v['what']}: {canon(v['detail'])[:1500]}")
        print(f"VIOLATION property={pid} replay={path}")
        return 1
    for mech, n in ctx.known_hits.items():
        print(f"KNOWN-FINDING: property={pid} {ctx.known[mech]['what']}")
    if ctx.inconclusive:
        print(f"INCONCLUSIVE property={pid} reason={ctx.inconclusive[0]}")
        return 2
    print(f"[{pid}] replay: no violation on this tree")
    return 0


def unjson(obj):
    if isinstance(obj, dict):
        if set(obj) == {"__bytes__"}:
            return bytes.fromhex(obj["__bytes__"])
        if set(obj) == {"__set__"}:
            return [unjson(x) for x in obj["__set__"]]
        return {k: unjson(v) for k, v in obj.items()}
    if isinstance(obj, list):
        return [unjson(x) for x in obj]
    return obj
