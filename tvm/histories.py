"""Well-formed histories of TestResult calls, adapter stacks, and a driver (C04, C08, C09, C17)."""

import datetime

from . import recorders

UTC = datetime.timezone.utc
# the last entry is the documented time(None): "go back to reading the system clock"
TIMES = [datetime.datetime(2023, 3, 3, 3, 0, s, tzinfo=UTC) for s in (0, 10, 20, 30, 40, 5)] + [
    # aware datetimes in other zones (the instants 03:00:50 and 03:01:00 UTC): an instant is an instant
    datetime.datetime(2023, 3, 3, 8, 30, 50, tzinfo=datetime.timezone(datetime.timedelta(hours=5, minutes=30))),
    datetime.datetime(2023, 3, 2, 19, 1, 0, tzinfo=datetime.timezone(datetime.timedelta(hours=-8))),
    None]
OUTCOMES = ["addSuccess", "addFailure", "addError", "addSkip", "addExpectedFailure",
            "addUnexpectedSuccess"]
LEAVES = ["py26", "py27", "ext", "twisted", "real"]


def make_leaf(flavour, log):
    import testtools
    if flavour == "py26":
        return recorders.Py26Recorder(log)
    if flavour == "py27":
        return recorders.Py27Recorder(log)
    if flavour == "ext":
        return recorders.ExtRecorder(log)
    if flavour == "twisted":
        return recorders.TwistedRecorder(log)
    if flavour == "real":
        return recorders.make_real_recorder(testtools.TestResult, log)
    raise ValueError(flavour)


class Built:
    """A built stack: top object + leaves [(path, flavour, log, object)] + TBT callbacks."""

    def __init__(self):
        self.leaves = []
        self.tbt = []  # (path, calls list)
        self.objects = []


def build_stack(stack, built=None, path=()):
    """stack JSON:
        ["leaf", flavour] | ["E2O", s] | ["Multi", [s..]] | ["Decorator", s] |
        ["Tagger", new, gone, s] | ["TBT"] | ["TFR", s]
    """
    import threading
    import testtools
    built = built if built is not None else Built()
    kind = stack[0]
    if kind == "leaf":
        log = recorders.Log()
        obj = make_leaf(stack[1], log)
        built.leaves.append((list(path), stack[1], log, obj))
    elif kind == "E2O":
        obj = testtools.ExtendedToOriginalDecorator(build_stack(stack[1], built, path + (("E2O",),))[0])
    elif kind == "Multi":
        kids = [build_stack(s, built, path + (("Multi",), ("E2O",)))[0] for s in stack[1]]
        obj = testtools.MultiTestResult(*kids)
    elif kind == "Decorator":
        obj = testtools.TestResultDecorator(build_stack(stack[1], built, path + (("Decorator",),))[0])
    elif kind == "Tagger":
        # how the caller hands the tag collections over: a set it keeps, one-shot iterables, or a
        # scratch set it empties and refills straight after building the Tagger
        mode = stack[4] if len(stack) > 4 else "set"
        new, gone = set(stack[1]), set(stack[2])
        inner = build_stack(stack[3], built, path + (("Tagger", stack[1], stack[2]),))[0]
        if mode == "iter":
            obj = testtools.Tagger(inner, iter(sorted(new)), (t for t in sorted(gone)))
        else:
            obj = testtools.Tagger(inner, new, gone)
        if mode == "mutated":
            new.clear()
            gone.clear()
            new.add("caller-reused-set")
            gone.update(stack[1])
    elif kind == "TBT":
        calls = []
        obj = testtools.TestByTestResult(lambda **kw: calls.append(
            dict(kw, _seq=recorders.next_seq(),
                 details=None if kw["details"] is None else recorders.snap_details(kw["details"]),
                 tags=set(kw["tags"]), test=kw["test"].id())))
        built.tbt.append((list(path), calls))
    elif kind == "TFR":
        obj = testtools.ThreadsafeForwardingResult(
            build_stack(stack[1], built, path + (("TFR",), ("E2O",)))[0], threading.Semaphore(1))
    else:
        raise ValueError(kind)
    built.objects.append((kind, obj))
    return obj, built


def speaks_extended(stack):
    return stack[0] != "leaf" or stack[1] in ("ext", "real")


def supports(stack, op):
    kind = stack[0]
    if op == "progress":
        if kind == "TFR":
            return True
        if kind == "E2O":
            child = stack[1]
            # E2O only guards against its immediate child lacking progress()
            has = child[0] in ("E2O", "Decorator", "Tagger", "TFR") or child == ["leaf", "ext"]
            return (not has) or supports(child, op)
        if kind in ("Decorator", "Tagger"):
            return supports(stack[-1], op)
        return kind == "leaf" and stack[1] == "ext"
    if op == "done":
        if kind in ("E2O", "Multi", "TFR", "TBT"):
            return True
        if kind == "leaf":
            return stack[1] in ("ext", "real", "twisted")
        return False
    if op == "stop":
        if kind == "leaf":
            return stack[1] != "twisted"
        if kind in ("Decorator", "Tagger"):
            return supports(stack[-1], op)
        return True
    return True


def make_test(spec):
    import testtools
    kind = spec.get("kind", "placeholder")
    if kind == "testcase":
        class T(testtools.TestCase):
            def test(self):
                pass

            def id(self):
                return spec["id"]
        return T("test")
    if kind == "strictfail":
        # a test whose failureException insists on its message argument (an exception class with a signature of its own)
        class Strict(AssertionError):
            def __init__(self, message):
                super().__init__(message)

        class S(testtools.TestCase):
            failureException = Strict

            def test(self):
                pass

            def id(self):
                return spec["id"]
        return S("test")
    if kind == "errorholder":
        return testtools.PlaceHolder(spec["id"], outcome="addError")
    return testtools.PlaceHolder(spec["id"])


_SHARED = {"cell": b"", "content": None}


def make_details(items):
    from testtools.content import Content
    from testtools.content_type import ContentType
    d = {}
    for name, text, ctype in items:
        if ctype == "shared":
            # ONE lazy Content object handed over with every test that has such a detail (a log buffer attached to
            # each outcome): what counts is what it yields when that outcome is reported
            _SHARED["cell"] = text.encode("utf8")
            if _SHARED["content"] is None:
                _SHARED["content"] = Content(ContentType("text", "plain", {"charset": "utf8"}),
                                             lambda: [_SHARED["cell"]])
            d[name] = _SHARED["content"]
        elif ctype == "text":
            d[name] = Content(ContentType("text", "plain", {"charset": "utf8"}),
                              lambda t=text: [t.encode("utf8")])
        elif ctype == "text-lines":
            d[name] = Content(ContentType("text", "plain", {"charset": "utf8"}),
                              lambda t=text: [lines_text(t).encode("utf8")])
        elif ctype == "override":
            # a Content SUBCLASS that overrides iter_bytes() (the documented way to serialise differently - here it
            # swaps the case of what the source yields): its text form is the text of THOSE bytes
            class SwapCase(Content):
                def iter_bytes(self):
                    for chunk in super().iter_bytes():
                        yield chunk.swapcase()
            d[name] = SwapCase(ContentType("text", "plain", {"charset": "utf8"}), lambda t=text: [t.encode("utf8")])
        elif ctype == "text-split":
            # the same kind of detail read in chunks that split a multi-byte character
            whole = ("\xe9-" + text + "-\u2603").encode("utf8")
            d[name] = Content(ContentType("text", "plain", {"charset": "utf8"}),
                              lambda w=whole: [w[:1], w[1:-2], w[-2:]])
        else:
            d[name] = Content(ContentType("application", "octet-stream"),
                              lambda t=text: [t.encode("utf8")])
    return d


def lines_text(text):
    """A log with every kind of line end in it: CRLF, a lone CR, a form feed, U+2028 - it is text, not lines."""
    return "first\r\nsecond\rthird\x0c" + text + "\u2028last"


def detail_bytes(text, ctype):
    """The bytes make_details() produces for one [name, text, ctype] item."""
    if ctype == "text-lines":
        return lines_text(text).encode("utf8")
    if ctype == "override":
        return text.encode("utf8").swapcase()
    if ctype == "text-split":
        return ("\xe9-" + text + "-\u2603").encode("utf8")
    return text.encode("utf8")


def make_exc_info(token):
    """An exc_info triple whose exception instance has since been raised AGAIN elsewhere (re-raised by a retry loop,
    a saved exception raised later): its __traceback__ has grown by the frame below, the triple's traceback has not.
    What is reported is the triple that was handed in."""
    import sys
    try:
        raise ValueError(token)
    except ValueError:
        info = sys.exc_info()

    def tvm_later_frame(exc):
        raise exc
    try:
        tvm_later_frame(info[1])
    except ValueError:
        pass
    return info


LATER_FRAME = b"tvm_later_frame"


def drive(result, history, on_step=None, details_fn=None):
    """Apply a history to ``result``.  Returns the list of (op, detail dicts handed over)."""
    handed = []
    for op in history:
        kind = op[0]
        if kind == "startTestRun":
            result.startTestRun()
        elif kind == "stopTestRun":
            result.stopTestRun()
        elif kind == "tags":
            result.tags(set(op[1]), set(op[2]))
        elif kind == "time":
            result.time(TIMES[op[1]])
        elif kind == "progress":
            result.progress(op[1], op[2])
        elif kind == "failfast":
            result.failfast = op[1]
        elif kind == "stop":
            result.stop()
        elif kind == "done":
            result.done()
        elif kind == "test":
            spec = op[1]
            test = make_test(spec)
            if spec.get("t0") is not None:
                result.time(TIMES[spec["t0"]])
            if not spec.get("no_start"):
                result.startTest(test)
            for new, gone in spec.get("tags_in", []):
                result.tags(set(new), set(gone))
            if spec.get("t1") is not None:
                result.time(TIMES[spec["t1"]])
            if on_step:
                on_step("before-outcome", spec)
            name, form = spec["outcome"], spec["form"]
            fn = getattr(result, name)
            if form == "details":
                d = (details_fn or make_details)(spec["details"])
                handed.append((spec, d))
                fn(test, details=d)
            elif form == "reason+details":
                d = (details_fn or make_details)(spec["details"])
                handed.append((spec, d))
                fn(test, spec["reason"], details=d)
            elif form == "exc":
                fn(test, make_exc_info(spec["token"]))
            elif form == "reason":
                fn(test, spec["reason"])
            else:
                fn(test)
            if on_step:
                on_step("after-outcome", spec)
            for new, gone in spec.get("tags_after", []):
                result.tags(set(new), set(gone))
            result.stopTest(test)
            if on_step:
                on_step("after-stopTest", spec)
        else:
            raise ValueError(op)
        if on_step and kind != "test":
            on_step(kind, op)
    return handed


def random_test_spec(rng, i, tok, *, allow_no_start=False):
    outcome = rng.choice(OUTCOMES)
    spec = {"id": "t%d%s" % (i, rng.choice(["", "", "\xe9", " x"])), "outcome": outcome,
            "kind": rng.choice(["placeholder", "placeholder", "testcase", "errorholder", "strictfail"])}
    forms = {"addSuccess": ["none", "details"], "addSkip": ["reason", "details"],
             "addUnexpectedSuccess": ["none", "details"]}.get(outcome, ["exc", "details"])
    spec["form"] = rng.choice(forms)
    if spec["form"] == "details":
        items = []
        names = rng.sample(["foo", "log", "traceback", "bin", "traceback-1"], rng.randint(0, 3))
        for n in names:
            items.append([n, tok("D"), "bin" if n == "bin" else rng.choice(["text", "text", "text-split", "override", "text-lines"])])
        if outcome == "addSkip" and rng.random() < 0.7:
            items.append(["reason", tok("R"), "text"])
        spec["details"] = items
    elif spec["form"] == "exc":
        spec["token"] = tok("X")
    elif spec["form"] == "reason":
        spec["reason"] = tok("R") if rng.random() < 0.85 else ""     # an explicitly empty reason is a reason
    if rng.random() < 0.5:
        spec["t0"] = rng.randrange(len(TIMES))
    if rng.random() < 0.5:
        spec["t1"] = rng.randrange(len(TIMES))
    if rng.random() < 0.4:
        spec["tags_in"] = [random_tag_change(rng) for _ in range(rng.randint(1, 2))]
    if allow_no_start and outcome == "addSkip" and rng.random() < 0.5:
        spec["no_start"] = True
        spec.pop("tags_in", None)
    return spec


TAGS = ["a", "b", "c"]


def random_tag_change(rng):
    new = rng.sample(TAGS, rng.randint(0, 2))
    gone = [t for t in rng.sample(TAGS, rng.randint(0, 2)) if t not in new]
    return [new, gone]


def random_history(rng, stack, *, max_tests=5, runs=1, allow_no_start=False, tags=True):
    class Tok:
        n = 0

        def __call__(self, p):
            Tok.n += 1
            return "<<%s%d>>" % (p, Tok.n)
    tok = Tok()
    Tok.n = 0
    h = []
    i = 0
    for r in range(runs):
        h.append(["startTestRun"])
        for _ in range(rng.randint(0, max_tests)):
            x = rng.random()
            if tags and x < 0.2:
                h.append(["tags"] + random_tag_change(rng))
            elif x < 0.27:
                h.append(["time", rng.randrange(len(TIMES))])
            elif x < 0.31 and supports(stack, "progress"):
                h.append(["progress", rng.randint(-2, 5), rng.choice([0, 1, 2])])
            i += 1
            h.append(["test", random_test_spec(rng, i, tok, allow_no_start=allow_no_start)])
        if rng.random() < 0.15 and supports(stack, "stop"):
            h.append(["stop"])
        if rng.random() < 0.15 and supports(stack, "done"):
            h.append(["done"])
        h.append(["stopTestRun"])
    return h


def random_stack(rng, depth, top=True):
    """Stack respecting protocol compatibility: Decorator/Tagger only over extended speakers."""
    if depth <= 1:
        if top:
            return rng.choice([["leaf", "ext"], ["leaf", "real"], ["TBT"],
                               ["E2O", ["leaf", rng.choice(LEAVES)]]])
        return rng.choice([["leaf", f] for f in LEAVES] + [["TBT"]])
    r = rng.random()
    if r < 0.3:
        return ["E2O", random_stack(rng, depth - 1, False)]
    if r < 0.6:
        return ["Multi", [random_stack(rng, depth - 1, False) for _ in range(rng.randint(1, 3))]]
    inner = random_stack(rng, depth - 1, False)
    if not speaks_extended(inner) or inner[0] == "TBT":
        inner = ["E2O", inner] if inner[0] != "TBT" else ["Multi", [inner]]
    if r < 0.8:
        return ["Decorator", inner]
    new = rng.sample(TAGS, rng.randint(0, 2))
    # (disjoint, as for tags(): what a tag both added and removed in one call ends up as is not specified)
    gone = [t for t in rng.sample(TAGS, rng.randint(0, 1)) if t not in new]
    return ["Tagger", new, gone, inner, rng.choice(["set", "set", "iter", "mutated"])]
