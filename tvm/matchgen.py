"""Typed matcher-expression trees with an independent semantics (oracle for C06 / C07).

An expression is JSON: ``[node, arg...]``.  ``build(expr, env)`` instantiates the stock testtools
matcher, ``sem(expr, value, env)`` decides the documented predicate with plain Python (==, is, <,
isinstance, in, str.startswith, re.match, len, multiset equality, key-set relations, os.path,
tarfile, brute-force search for a perfect matching) and never touches testtools.

Values are JSON too (``["int", 3]``, ``["str", "a"]``, ``["obj", {...}]``, ``["exc", "ValueError",
["x"]]``, ``["call", ...]``, ``["path", "file_a"]``) and are materialised by ``mkvalue``.
"""

import itertools
import os
import re
import stat
import tarfile
import warnings

DOMAINS = ["int", "str", "bytes", "list", "dict", "obj", "exc", "call", "path", "lstr"]


class Propagates(Exception):
    """sem(): the documented behaviour is that this exception leaves match()."""

    def __init__(self, exc_type):
        self.exc_type = exc_type


class Obj:
    def __init__(self, **kw):
        self.__dict__.update(kw)

    def __repr__(self):
        return "Obj(%s)" % ", ".join("%s=%r" % kv for kv in sorted(self.__dict__.items()))

    def __eq__(self, other):
        return type(other) is Obj and self.__dict__ == other.__dict__

    __hash__ = None


class MyErr(ValueError):
    pass


import abc as _abc
import collections as _collections


class AbcErr(Exception, metaclass=_abc.ABCMeta):
    """An exception base class whose metaclass is not `type` (a class all the same)."""


class AbcChild(AbcErr):
    pass


ExcPair = _collections.namedtuple("ExcPair", "first second")   # a tuple (subclass) of exception types


EXC_TYPES = {"ValueError": ValueError, "KeyError": KeyError, "RuntimeError": RuntimeError,
             "MyErr": MyErr, "KeyboardInterrupt": KeyboardInterrupt, "SystemExit": SystemExit,
             "Exception": Exception, "LookupError": LookupError, "GeneratorExit": GeneratorExit,
             "AbcErr": AbcErr, "AbcChild": AbcChild, "SkipTest": __import__("unittest").SkipTest}
WARN_TYPES = {"DeprecationWarning": DeprecationWarning, "UserWarning": UserWarning,
              "RuntimeWarning": RuntimeWarning}
TYPES = {"int": int, "str": str, "bytes": bytes, "list": list, "dict": dict, "bool": bool,
         "Obj": Obj, "tuple": tuple, "NoneType": type(None)}

import functools as _functools
import operator as _operator


class _LenCallable:
    def __call__(self, v):
        return len(v)


PREPROCESSORS = {
    # name: (function, source domain, target domain)
    "neg": (lambda v: -v, "int", "int"),
    "abs": (abs, "int", "int"),
    "tostr": (str, "int", "str"),
    "len_s": (len, "str", "int"),
    "upper": (str.upper, "str", "str"),
    "len_l": (len, "list", "int"),
    "sum": (sum, "list", "int"),
    "sorted": (sorted, "list", "list"),
    "len_d": (len, "dict", "int"),
    "get_a": (lambda o: o.a, "obj", "int"),
    "get_s": (lambda o: o.s, "obj", "str"),
    "len_b": (len, "bytes", "int"),
    # callables that are neither functions nor classes (no __name__)
    "neg_partial": (_functools.partial(_operator.mul, -1), "int", "int"),
    "upper_mc": (_operator.methodcaller("upper"), "str", "str"),
    "len_obj": (_LenCallable(), "list", "int"),
}
for _n, (_f, _s, _t) in PREPROCESSORS.items():
    if getattr(_f, "__name__", "") == "<lambda>":
        _f.__name__ = _n
PREDICATES = {
    "even": (lambda x: x % 2 == 0, "%s is not even", "int"),
    "positive": (lambda x: x > 0, "%d is not positive", "int"),
    "nonempty": (lambda x: len(x) > 0, "%s is empty", "str"),
    "bare": (lambda x: x.startswith("zz"), "%s", "str"),
    "truthy_l": (lambda x: bool(x), "%s is falsy", "list"),
    "value_error": (lambda x: issubclass(x[0], ValueError), "%s is not a ValueError exc_info", "exc"),
}
PREDICATES_P = {
    "divisible": (lambda x, k: x % k == 0, "{0} is not divisible by {1}", "int"),
    "longer": (lambda x, n: len(x) > n, "len({0}) <= {1}", "str"),
    "bare_p": (lambda x, n: len(x) > n, "{0}", "str"),
    # parameters given BY KEYWORD to the factory (the documented "{0} is not a {type_to_check}" style); the
    # predicate has defaults of its own, which must not be what decides
    "between": (lambda x, low=100, high=200: low <= x <= high, "{0} is not between {low} and {high}", "int"),
    "below": (lambda x, high=-1000: x <= high, "{0} is above {high}", "int"),
    "shorter": (lambda x, limit=0: len(x) < limit, "len({0}) >= {limit}", "str"),
}


class Env:
    """Scratch directory for the path domain (created once per process)."""

    def __init__(self, root):
        self.root = root
        j = lambda *p: os.path.join(root, *p)  # noqa: E731
        with open(j("file_a"), "w") as f:
            f.write("hello")
        with open(j("file_e"), "w") as f:
            f.write("")
        with open(j("file_m"), "w") as f:
            f.write("line1\nline2\n")
        with open(j("file_bin"), "wb") as f:
            f.write(b"\xff\xfe\x00not text\x80")      # cannot be read as text
        os.chmod(j("file_a"), 0o644)
        os.chmod(j("file_e"), 0o600)
        os.chmod(j("file_m"), 0o755)
        os.mkdir(j("dir_d"))
        for n in ("x", "y"):
            with open(j("dir_d", n), "w") as f:
                f.write(n)
        os.mkdir(j("dir_empty"))
        os.symlink(j("file_a"), j("link_a"))
        # a symlinked directory whose parent is elsewhere: link_in/../file_q is deep/file_q, not ./file_q
        os.makedirs(j("deep", "inner"))
        for n, text in ((j("deep", "file_q"), "deep"), (j("file_q"), "top")):
            with open(n, "w") as f:
                f.write(text)
        os.symlink(j("deep", "inner"), j("link_in"))
        # names that differ in case only; a directory with the sticky bit (mode digits beyond 0777)
        os.mkdir(j("dir_case"))
        for n in ("README", "readme", "Makefile", "makefile"):
            with open(j("dir_case", n), "w") as f:
                f.write(n)
        os.mkdir(j("dir_sticky"))
        os.chmod(j("dir_sticky"), 0o1755)
        with tarfile.open(j("t.tar"), "w") as t:
            t.add(j("file_a"), "p")
            t.add(j("dir_d", "x"), "q/r")
        with tarfile.open(j("t1.tar"), "w") as t:
            t.add(j("file_a"), "only")

    def path(self, name):
        return os.path.join(self.root, name)

    def snapshot(self):
        out = []
        for base, dirs, files in sorted(os.walk(self.root)):
            for n in sorted(dirs + files):
                p = os.path.join(base, n)
                st = os.lstat(p)
                out.append((os.path.relpath(p, self.root), stat.S_IMODE(st.st_mode),
                            st.st_size if not stat.S_ISDIR(st.st_mode) else None))
        return out


PATH_NAMES = ["file_a", "file_e", "file_m", "dir_d", "dir_empty", "link_a", "t.tar", "t1.tar",
              "missing", "dir_d/x", "dir_d/../file_a", "file_bin", "link_in/../file_q", "deep/file_q", "file_q",
              "dir_case", "dir_sticky"]


def mkvalue(v, env):
    kind = v[0]
    if kind == "dict" and len(v) > 2:
        # dict subclasses that answer [] for absent keys (Counter: 0; defaultdict: inserts the default)
        if v[2] == "counter":
            return _collections.Counter(dkd(v[1]))
        return _collections.defaultdict(int, dkd(v[1]))
    if kind == "dict":
        import copy
        return dkd(copy.deepcopy(v[1]))
    if kind == "list" and len(v) > 2:
        # sequences that are not lists and have no __contains__: `in`, len(), iteration and sorted() all work
        return (GetItemSeq if v[2] == "seq" else IterSized)(list(v[1]))
    if kind in ("int", "str", "list", "dict", "lstr"):
        import copy
        return copy.deepcopy(v[1])
    if kind == "bytes":
        return bytes.fromhex(v[1])
    if kind == "none":
        return None
    if kind == "obj":
        return Obj(**v[1])
    if kind == "exc":
        try:
            raise EXC_TYPES[v[1]](*v[2])
        except BaseException:
            import sys
            return sys.exc_info()
    if kind == "call":
        spec = v[1]

        def fn():
            for cat, msg in spec.get("warn", []):
                warnings.warn(msg, WARN_TYPES[cat])
            if "raise" in spec:
                raise EXC_TYPES[spec["raise"][0]](*spec["raise"][1])
            return spec.get("ret")
        fn.__name__ = "call_%s" % ("raises" if "raise" in spec else "returns")
        return fn
    if kind == "path":
        return env.path(v[1])
    raise ValueError(kind)


class GetItemSeq:
    """An old-style sequence: __getitem__ and __len__ only (iteration and `in` go through __getitem__)."""

    def __init__(self, items):
        self._items = items

    def __getitem__(self, i):
        return self._items[i]

    def __len__(self):
        return len(self._items)

    def __eq__(self, other):
        return type(other) is type(self) and other._items == self._items

    __hash__ = None

    def __repr__(self):
        return "%s(%r)" % (type(self).__name__, self._items)


class IterSized:
    """Iterable and sized, but without __contains__ or __getitem__ (`in` falls back on iteration)."""

    def __init__(self, items):
        self._items = items

    def __iter__(self):
        return iter(self._items)

    def __len__(self):
        return len(self._items)

    def __eq__(self, other):
        return type(other) is type(self) and other._items == self._items

    __hash__ = None

    def __repr__(self):
        return "%s(%r)" % (type(self).__name__, self._items)


def dk(k):
    """Dict keys in JSON are strings; "#1" stands for the int 1 (dicts whose keys cannot be ordered
    against each other, like {1: .., "a": ..}, are dicts too)."""
    if isinstance(k, str) and k.startswith("@j") and k[2:].isdigit():
        return complex(0, int(k[2:]))       # keys of ONE type that has no ordering ("@j1" is 1j)
    return int(k[1:]) if isinstance(k, str) and k.startswith("#") and k[1:].lstrip("-").isdigit() else k


def dkd(d):
    return {dk(k): v for k, v in d.items()}


def const(c):
    """Constants inside expressions: ints/strs/lists as is, bytes as {"b": hex}."""
    if isinstance(c, dict) and set(c) == {"b"}:
        return bytes.fromhex(c["b"])
    return c


# --------------------------------------------------------------------------------------------
def build(e, env):
    import testtools.matchers as M
    op = e[0]
    B = lambda x: build(x, env)  # noqa: E731
    if op == "Equals":
        return M.Equals(const(e[1]))
    if op == "NotEquals":
        return M.NotEquals(const(e[1]))
    if op == "IsNone":
        return M.Is(None)
    if op == "LessThan":
        return M.LessThan(e[1])
    if op == "GreaterThan":
        return M.GreaterThan(e[1])
    if op == "IsInstance":
        return M.IsInstance(*[TYPES[t] for t in e[1]])
    if op == "Always":
        return M.Always()
    if op == "Never":
        return M.Never()
    if op == "MatchesPredicate":
        f, msg, _ = PREDICATES[e[1]]
        return M.MatchesPredicate(f, msg)
    if op == "MatchesPredicateWithParams":
        f, msg, _ = PREDICATES_P[e[1]]
        if isinstance(e[2], dict):
            return M.MatchesPredicateWithParams(f, msg)(**e[2])
        return M.MatchesPredicateWithParams(f, msg)(e[2])
    if op == "AfterPreprocessing":
        return M.AfterPreprocessing(PREPROCESSORS[e[1]][0], B(e[2]), *([e[3]] if len(e) > 3 else []))
    if op == "Not":
        return M.Not(B(e[1]))
    if op == "MatchesAny":
        return M.MatchesAny(*[B(x) for x in e[1]])
    if op == "MatchesAll":
        return M.MatchesAll(*[B(x) for x in e[1]], first_only=bool(e[2]))
    if op == "Annotate":
        return M.Annotate(e[1], B(e[2]))
    if op == "StartsWith":
        return M.StartsWith(const(e[1]))
    if op == "EndsWith":
        return M.EndsWith(const(e[1]))
    if op == "Contains":
        return M.Contains(const(e[1]))
    if op == "MatchesRegex":
        return M.MatchesRegex(const(e[1]), e[2])
    if op == "HasLength":
        return M.HasLength(e[1])
    if op == "DocTestMatches":
        return M.DocTestMatches(e[1])
    if op == "ContainsAll":
        return M.ContainsAll(e[1])
    if op == "SameMembers":
        return M.SameMembers(list(e[1]))
    if op == "AllMatch":
        return M.AllMatch(B(e[1]))
    if op == "AnyMatch":
        return M.AnyMatch(B(e[1]))
    if op == "MatchesListwise":
        return M.MatchesListwise([B(x) for x in e[1]], first_only=bool(e[2]))
    if op == "MatchesSetwise":
        if len(e) > 2 and e[2]:  # the same matcher *instance* passed several times
            shared = B(e[1][0])
            return M.MatchesSetwise(*([shared] * len(e[1])))
        return M.MatchesSetwise(*[B(x) for x in e[1]])
    if op == "KeysEqual":
        return M.KeysEqual(*[dk(k) for k in e[1]])
    if op == "MatchesDict":
        return M.MatchesDict({dk(k): B(x) for k, x in e[1].items()})
    if op == "ContainsDict":
        return M.ContainsDict({dk(k): B(x) for k, x in e[1].items()})
    if op == "ContainedByDict":
        return M.ContainedByDict({dk(k): B(x) for k, x in e[1].items()})
    if op == "MatchesStructure":
        return M.MatchesStructure(**{k: B(x) for k, x in e[1].items()})
    if op == "MatchesStructureByEquality":
        return M.MatchesStructure.byEquality(**e[1])
    if op == "MatchesStructureUpdate":
        # update(): a matcher replaces / adds the attribute's, None removes it; a new matcher is returned
        return M.MatchesStructure(**{k: B(x) for k, x in e[1].items()}).update(
            **{k: (None if x is None else B(x)) for k, x in e[2].items()})
    if op == "MatchesStructureFromExample":
        return M.MatchesStructure.fromExample(Obj(**e[1]), *e[2])
    if op == "MatchesStructureByMatcher":
        return M.MatchesStructure.byMatcher(getattr(M, e[1]), **e[2])
    if op == "MatchesException":
        how = e[1]
        if how[0] == "type":
            return M.MatchesException(EXC_TYPES[how[1]])
        if how[0] == "types":
            return M.MatchesException(tuple(EXC_TYPES[t] for t in how[1]))
        if how[0] == "types_nt":
            return M.MatchesException(ExcPair(*[EXC_TYPES[t] for t in how[1]]))
        if how[0] == "instance":
            return M.MatchesException(EXC_TYPES[how[1]](*how[2]))
        if how[0] == "type_re":
            return M.MatchesException(EXC_TYPES[how[1]], how[2])
        if how[0] == "type_m":
            return M.MatchesException(EXC_TYPES[how[1]], M.AfterPreprocessing(str, B(how[2])))
    if op == "Raises":
        return M.Raises(B(e[1])) if e[1] is not None else M.Raises()
    if op == "raises":
        return M.raises(EXC_TYPES[e[1]])
    if op == "Warnings":
        return M.Warnings(B(e[1])) if e[1] is not None else M.Warnings()
    if op == "WarningMessage":
        return M.WarningMessage(WARN_TYPES[e[1]], message=B(e[2]) if e[2] is not None else None)
    if op == "IsDeprecated":
        return M.IsDeprecated(B(e[1]))
    if op == "PathExists":
        return M.PathExists()
    if op == "DirExists":
        return M.DirExists()
    if op == "FileExists":
        return M.FileExists()
    if op == "DirContains":
        return M.DirContains(list(e[1]))
    if op == "DirContainsM":
        return M.DirContains(matcher=B(e[1]))
    if op == "FileContains":
        return M.FileContains(e[1])
    if op == "FileContainsM":
        return M.FileContains(matcher=B(e[1]))
    if op == "HasPermissions":
        return M.HasPermissions(e[1])
    if op == "SamePath":
        return M.SamePath(env.path(e[1]))
    if op == "TarballContains":
        if len(e) > 2 and e[2] == "iter":
            return M.TarballContains(iter(list(e[1])))      # "paths" given as a one-shot iterable
        return M.TarballContains(list(e[1]))
    raise ValueError("unknown node %r" % (e,))


# --------------------------------------------------------------------------------------------
def perfect_matching_exists(n_values, n_matchers, ok):
    """Brute force: is there a bijection values -> matchers with ok(v, m) everywhere?"""
    if n_values != n_matchers:
        return False
    for perm in itertools.permutations(range(n_matchers)):
        if all(ok(v, perm[v]) for v in range(n_values)):
            return True
    return False


def warnings_of(callspec):
    return [(WARN_TYPES[c], m) for c, m in callspec.get("warn", [])]


def sem(e, v, env, raw=None):
    """Decide the documented predicate.  ``v`` is the materialised value; ``raw`` its JSON form
    (needed where the oracle must not call the value, e.g. callables)."""
    op = e[0]
    S = lambda x, val, r=None: sem(x, val, env, r)  # noqa: E731
    if op == "Equals":
        return v == const(e[1])
    if op == "NotEquals":
        return v != const(e[1])
    if op == "IsNone":
        return v is None
    if op == "LessThan":
        return v < e[1]
    if op == "GreaterThan":
        return v > e[1]
    if op == "IsInstance":
        return isinstance(v, tuple(TYPES[t] for t in e[1]))
    if op == "Always":
        return True
    if op == "Never":
        return False
    if op == "MatchesPredicate":
        return bool(PREDICATES[e[1]][0](v))
    if op == "MatchesPredicateWithParams":
        if isinstance(e[2], dict):
            if e[1] == "between":
                return e[2]["low"] <= v <= e[2]["high"]
            if e[1] == "below":
                return v <= e[2]["high"]
            return len(v) < e[2]["limit"]
        return bool(PREDICATES_P[e[1]][0](v, e[2]))
    if op == "AfterPreprocessing":
        return S(e[2], PREPROCESSORS[e[1]][0](v))
    if op == "Not":
        return not S(e[1], v, raw)
    if op == "MatchesAny":
        return any([S(x, v, raw) for x in e[1]])
    if op == "MatchesAll":
        return all([S(x, v, raw) for x in e[1]])
    if op == "Annotate":
        return S(e[2], v, raw)
    if op == "StartsWith":
        return v.startswith(const(e[1]))
    if op == "EndsWith":
        return v.endswith(const(e[1]))
    if op == "Contains":
        return const(e[1]) in v
    if op == "MatchesRegex":
        return re.match(const(e[1]), v, e[2]) is not None
    if op == "HasLength":
        return len(v) == e[1]
    if op == "DocTestMatches":
        nl = lambda s: s if s.endswith("\n") else s + "\n"  # noqa: E731
        return nl(v) == nl(e[1])
    if op == "ContainsAll":
        return all(x in v for x in e[1])
    if op == "SameMembers":
        return sorted(v) == sorted(e[1])
    if op == "AllMatch":
        return all([S(e[1], x) for x in v])
    if op == "AnyMatch":
        return any([S(e[1], x) for x in v])
    if op == "MatchesListwise":
        return len(v) == len(e[1]) and all([S(m, x) for m, x in zip(e[1], v)])
    if op == "MatchesSetwise":
        vals = list(v)
        table = [[S(m, x) for m in e[1]] for x in vals]
        return perfect_matching_exists(len(vals), len(e[1]), lambda i, j: table[i][j])
    if op == "KeysEqual":
        return set(v.keys()) == {dk(k) for k in e[1]} and len(set(e[1])) == len(e[1])
    if op == "MatchesDict":
        return set(v) == set(dkd(e[1])) and all([S(m, v[k]) for k, m in dkd(e[1]).items() if k in v])
    if op == "ContainsDict":
        return set(dkd(e[1])) <= set(v) and all([S(m, v[k]) for k, m in dkd(e[1]).items() if k in v])
    if op == "ContainedByDict":
        return set(v) <= set(dkd(e[1])) and all([S(m, v[k]) for k, m in dkd(e[1]).items() if k in v])
    if op == "MatchesStructure":
        return all([S(m, getattr(v, k)) for k, m in e[1].items()])
    if op == "MatchesStructureByEquality":
        return all(getattr(v, k) == c for k, c in e[1].items())
    if op == "MatchesStructureUpdate":
        merged = dict(e[1])
        for k, x in e[2].items():
            if x is None:
                merged.pop(k, None)
            else:
                merged[k] = x
        return all([S(m, getattr(v, k)) for k, m in merged.items()])
    if op == "MatchesStructureFromExample":
        return all(getattr(v, k) == e[1][k] for k in e[2])
    if op == "MatchesStructureByMatcher":
        cmp = {"LessThan": lambda a, b: a < b, "GreaterThan": lambda a, b: a > b, "Equals": lambda a, b: a == b,
               "NotEquals": lambda a, b: a != b}[e[1]]
        return all(cmp(getattr(v, k), c) for k, c in e[2].items())
    if op == "MatchesException":
        how = e[1]
        etype, evalue = v[0], v[1]
        if how[0] == "type":
            return issubclass(etype, EXC_TYPES[how[1]])
        if how[0] in ("types", "types_nt"):
            return issubclass(etype, tuple(EXC_TYPES[t] for t in how[1]))
        if how[0] == "instance":
            return issubclass(etype, EXC_TYPES[how[1]]) and evalue.args == tuple(how[2])
        if how[0] == "type_re":
            return issubclass(etype, EXC_TYPES[how[1]]) and re.match(how[2], str(evalue)) is not None
        if how[0] == "type_m":
            return issubclass(etype, EXC_TYPES[how[1]]) and S(how[2], str(evalue))
    if op in ("Raises", "raises"):
        spec = raw[1]
        if "raise" not in spec:
            return False
        etype = EXC_TYPES[spec["raise"][0]]
        inner = e[1] if op == "Raises" else ["MatchesException", ["type", e[1]]]
        if inner is not None:
            info = mkvalue(["exc", spec["raise"][0], spec["raise"][1]], env)
            if S(inner, info):
                return True
            if not issubclass(etype, Exception):
                raise Propagates(etype)
            return False
        if not issubclass(etype, Exception):
            raise Propagates(etype)
        return True
    if op in ("Warnings", "IsDeprecated") and "raise" in raw[1]:
        raise Propagates(EXC_TYPES[raw[1]["raise"][0]])     # what the callable raises leaves match()
    if op == "Warnings":
        ws = warnings_of(raw[1])
        if e[1] is None:
            return len(ws) >= 1
        return S(e[1], ws)
    if op == "WarningMessage":
        cat, msg = v  # (category, message text)
        return cat is WARN_TYPES[e[1]] and (e[2] is None or S(e[2], msg))
    if op == "IsDeprecated":
        ws = warnings_of(raw[1])
        return len(ws) == 1 and ws[0][0] is DeprecationWarning and S(e[1], ws[0][1])
    if op == "PathExists":
        return os.path.exists(v)
    if op == "DirExists":
        return os.path.isdir(v)
    if op == "FileExists":
        return os.path.isfile(v)
    if op == "DirContains":
        return os.path.isdir(v) and sorted(os.listdir(v)) == sorted(e[1])
    if op == "DirContainsM":
        return os.path.isdir(v) and S(e[1], sorted(os.listdir(v)))
    if op in ("FileContains", "FileContainsM"):
        if not os.path.exists(v):
            return False
        try:
            with open(v) as f:
                data = f.read()
        except UnicodeDecodeError:
            raise Propagates(UnicodeDecodeError)     # the file is opened as text: what cannot be read is an error
        return data == e[1] if op == "FileContains" else S(e[1], data)
    if op == "HasPermissions":
        return oct(os.stat(v).st_mode)[-4:] == e[1]
    if op == "SamePath":
        other = env.path(e[1])
        if os.path.exists(v) and os.path.exists(other):
            return os.path.samefile(v, other)          # what the OS says, symlinked directories and '..' included
        return os.path.realpath(v) == os.path.realpath(other)
    if op == "TarballContains":
        with tarfile.open(v) as t:
            return sorted(t.getnames()) == sorted(e[1])
    raise ValueError("unknown node %r" % (e,))


# when a matcher under test is handed a list of warnings, sem sees (category, text) pairs:
def is_warning_domain(e):
    return e[0] in ("WarningMessage",)


# --------------------------------------------------------------------------------------------
# pools and generators

# 1, True and 1.0 are == and hash alike, yet are different values to preprocessors such as str
INT_POOL = [-3, -1, 0, 1, 2, 3, 5, 6, True, 1.0]
STR_POOL = ["", "a", "ab", "abc", "b", "A", "\xe9", "a\nb", "a'b\"c", "\\", "\x00x", "zz\x7f",
            "\U0001f600", "line1\nline2\n", "ab ab", "'''", 'say "hi"\n', "tab\there", "caf\xe9 ☃"]
BYTES_POOL = ["", "61", "6162", "fffe", "610a62", "00", "636166c3a9", "27225c"]
LIST_POOL = [[], [1], [1, 2], [2, 1], [1, 1], [1, 2, 3], [3, 3, 3], [0, -1, 5], [2, 2, 1, 1], [6, 5, 3, 2, 1],
             [1, 2, 2], [1, 1, 2], [2, 1, 2],
             # elements that compare equal and are different things to a matcher: 1 / 1.0, 0 / False
             [1, 1.0], [0, False, 0.0], [2, 2.0, 1]]
DICT_POOL = [{}, {"a": 1}, {"a": 2}, {"a": 1, "b": 2}, {"b": 2}, {"a": 0, "b": 0, "c": 3}, {"\xe9": 1},
             {"a": 0}, {"a": 1, "b": 0},
             # keys of different types, which cannot be ordered against each other ("#1" is the int 1)
             {"#1": 1, "a": 2}, {"#1": 0, "a": 0, "b": 1}, {"#1": 1},
             {"@j1": 1, "@j2": 0}, {"@j2": 2}]
OBJ_POOL = [{"a": 1, "b": 2, "s": "ab"}, {"a": 0, "b": 0, "s": ""}, {"a": -1, "b": 5, "s": "\xe9"},
            {"a": 2, "b": 2, "s": "a\nb"}]
EXC_POOL = [["ValueError", ["x"]], ["ValueError", ["\xe9"]], ["ValueError", []], ["KeyError", ["k"]],
            ["RuntimeError", []], ["MyErr", ["a", "b"]], ["MyErr", ["x"]], ["KeyboardInterrupt", ["kb"]],
            ["AbcChild", ["x"]],
            # different arguments, the same text: 1 / "1", no argument / an empty one
            ["ValueError", [1]], ["ValueError", ["1"]], ["ValueError", [""]]]
CALL_POOL = [{"ret": 1}, {"ret": None}, {"raise": ["ValueError", ["x"]]}, {"raise": ["KeyError", ["k"]]},
             {"raise": ["MyErr", ["a", "b"]]}, {"raise": ["RuntimeError", []]}, {"raise": ["AbcChild", ["x"]]},
             # (an Exception like any other to a matcher: the code under test calls skipTest())
             {"raise": ["SkipTest", ["not today"]]}]
CALL_BASE_POOL = [{"raise": ["KeyboardInterrupt", ["kb"]]}, {"raise": ["SystemExit", [3]]},
                  {"raise": ["GeneratorExit", []]}]
WARNCALL_POOL = [{"ret": 1}, {"warn": [["DeprecationWarning", "old foo"]], "ret": 2},
                 {"warn": [["UserWarning", "careful"], ["DeprecationWarning", "old foo"]]},
                 {"warn": [["DeprecationWarning", "use bar \xe9"]]},
                 {"warn": [["RuntimeWarning", "x"], ["RuntimeWarning", "x"]]},
                 # a callable that warns and then breaks
                 {"warn": [["UserWarning", "before the crash"]], "raise": ["ValueError", ["x"]]}]
LSTR_POOL = [[], ["x"], ["x", "y"], ["y", "x"], ["a", "a"], ["x", "y", "z"]]
REGEXES = [["a", 0], ["a.*c", 0], ["^$", 0], ["[ab]+$", 0], ["\xe9", 0], ["A", re.I], ["a.b", re.S],
           ["line1$", re.M], [".*\\\\", 0],
           # the same patterns with other flags: a verdict must not depend on matchers built earlier
           ["A", 0], ["a", re.I], ["a.b", 0], ["line1$", 0],
           # patterns holding the characters string formatting treats specially
           ["a{2}", 0], ["[}{]", 0], ["100%", 0], ["%s", 0]]


def values_of(domain):
    if domain == "int":
        return [["int", x] for x in INT_POOL]
    if domain == "str":
        return [["str", x] for x in STR_POOL]
    if domain == "bytes":
        return [["bytes", x] for x in BYTES_POOL]
    if domain == "list":
        return [["list", x] for x in LIST_POOL] + [["list", x, f] for x in ([], [1, 2], [1, 1, 2], [7], [2, 1])
                                                   for f in ("seq", "iter")]
    if domain == "dict":
        return ([["dict", x] for x in DICT_POOL] + [["dict", x, "counter"] for x in DICT_POOL[:6]]
                + [["dict", x, "defaultdict"] for x in DICT_POOL[:6]])
    if domain == "obj":
        return [["obj", x] for x in OBJ_POOL]
    if domain == "exc":
        return [["exc", t, a] for t, a in EXC_POOL]
    if domain == "call":
        return [["call", x] for x in CALL_POOL]
    if domain == "callbase":
        return [["call", x] for x in CALL_BASE_POOL]
    if domain == "warncall":
        return [["call", x] for x in WARNCALL_POOL]
    if domain == "path":
        return [["path", x] for x in PATH_NAMES]
    if domain == "lstr":
        return [["lstr", x] for x in LSTR_POOL]
    raise ValueError(domain)


def leaves(domain, rng=None):
    """Leaf expressions for a domain (no sub-expressions)."""
    L = [["Always"], ["Never"], ["IsNone"], ["IsInstance", []]]   # isinstance(x, ()) is valid, and False
    if domain == "int":
        for c in (0, 1, 2, 5):
            L += [["Equals", c], ["NotEquals", c], ["LessThan", c], ["GreaterThan", c]]
        L += [["IsInstance", ["int"]], ["IsInstance", ["str", "bytes"]], ["MatchesPredicate", "even"],
              ["MatchesPredicate", "positive"], ["MatchesPredicateWithParams", "divisible", 3],
              ["MatchesPredicateWithParams", "between", {"low": 0, "high": 2}],
              ["MatchesPredicateWithParams", "below", {"high": 1000}]]
    elif domain == "str":
        for s in ("", "a", "ab", "\xe9", "a\nb", "line1\nline2\n"):
            L += [["Equals", s], ["StartsWith", s], ["EndsWith", s], ["Contains", s]]
        L += [["NotEquals", "a"], ["HasLength", 0], ["HasLength", 2], ["IsInstance", ["str"]],
              ["MatchesPredicate", "nonempty"], ["MatchesPredicateWithParams", "longer", 1],
              ["MatchesPredicate", "bare"], ["MatchesPredicateWithParams", "bare_p", 5],
              ["MatchesPredicateWithParams", "shorter", {"limit": 2}]]
        L += [["MatchesRegex", p, f] for p, f in REGEXES]
        L += [["DocTestMatches", s] for s in ("a", "ab", "\xe9", "a'b\"c", "", "line1\nline2")]
    elif domain == "bytes":
        for h in ("", "61", "fffe", "0a"):
            L += [["Equals", {"b": h}], ["StartsWith", {"b": h}], ["EndsWith", {"b": h}],
                  ["Contains", {"b": h}]]
        L += [["HasLength", 2], ["MatchesRegex", {"b": "612e"}, re.S], ["IsInstance", ["bytes"]]]
    elif domain == "list":
        for c in ([], [1, 2], [2, 1], [1, 1], [1, 1, 2], [2, 2, 1, 1]):
            L += [["Equals", c], ["SameMembers", c], ["ContainsAll", c]]
        L += [["HasLength", 0], ["HasLength", 2], ["Contains", 1], ["Contains", 7],
              ["MatchesPredicate", "truthy_l"], ["IsInstance", ["list", "tuple"]]]
    elif domain == "lstr":
        L += [["Equals", ["x", "y"]], ["HasLength", 2], ["Contains", "x"], ["SameMembers", ["y", "x"]],
              ["Equals", []]]
    elif domain == "dict":
        L += [["Equals", {"a": 1}], ["Equals", {}], ["KeysEqual", ["a"]], ["KeysEqual", ["a", "b"]],
              ["KeysEqual", ["b", "a"]], ["KeysEqual", ["c", "a", "b"]], ["KeysEqual", ["#1", "a"]],
              ["KeysEqual", ["a", "#1", "b"]], ["KeysEqual", ["@j2", "@j1"]],
              ["KeysEqual", []], ["HasLength", 1], ["Contains", "a"], ["IsInstance", ["dict"]]]
    elif domain == "obj":
        L += [["MatchesStructureFromExample", {"a": 1, "b": 2, "s": "ab"}, ["a", "s"]],
              ["MatchesStructureFromExample", {"a": 0, "b": 0, "s": ""}, []],
              ["MatchesStructureByMatcher", "LessThan", {"a": 1, "b": 3}],
              ["MatchesStructureByMatcher", "NotEquals", {"a": 0}],
              ["MatchesStructureUpdate", {"a": ["Equals", 1]}, {"a": None}],
              ["MatchesStructureUpdate", {"a": ["Equals", 1]}, {"b": ["Equals", 2], "a": ["LessThan", 5]}],
              ["MatchesStructureUpdate", {"a": ["Equals", 7], "b": ["Equals", 2]}, {"a": None, "s": ["Equals", "ab"]}]]
        L += [["MatchesStructureByEquality", {"a": 1}], ["MatchesStructureByEquality", {"a": 0, "s": ""}],
              ["IsInstance", ["Obj"]]]
    elif domain == "exc":
        L += [["MatchesException", ["type", "ValueError"]], ["MatchesException", ["type", "Exception"]],
              ["MatchesException", ["types", ["KeyError", "RuntimeError"]]],
              ["MatchesException", ["instance", "ValueError", ["x"]]],
              ["MatchesException", ["instance", "MyErr", ["a", "b"]]],
              ["MatchesException", ["instance", "ValueError", [1]]], ["MatchesException", ["instance", "ValueError", ["1"]]],
              ["MatchesException", ["instance", "ValueError", []]], ["MatchesException", ["instance", "ValueError", [""]]],
              ["MatchesException", ["type_re", "ValueError", "x"]],
              ["MatchesException", ["type_re", "LookupError", ".k"]],
              ["MatchesException", ["type", "KeyboardInterrupt"]], ["MatchesPredicate", "value_error"],
              ["MatchesException", ["type", "AbcErr"]], ["MatchesException", ["type_re", "AbcChild", "x"]],
              ["MatchesException", ["types_nt", ["KeyError", "ValueError"]]],
              ["MatchesException", ["types_nt", ["AbcErr", "RuntimeError"]]]]
    elif domain == "call":
        L = [["Raises", None], ["raises", "ValueError"], ["raises", "LookupError"], ["raises", "MyErr"],
             ["raises", "KeyboardInterrupt"], ["raises", "AbcErr"]]
    elif domain == "warncall":
        L = [["Warnings", None], ["Warnings", ["HasLength", 1]], ["Warnings", ["HasLength", 2]],
             ["Warnings", ["Equals", []]]]
    elif domain == "path":
        L = [["PathExists"], ["DirExists"], ["FileExists"], ["DirContains", ["x", "y"]],
             ["DirContains", []], ["DirContains", ["x"]], ["SamePath", "file_a"], ["SamePath", "dir_d/x"],
             ["SamePath", "deep/file_q"], ["SamePath", "link_in/../file_q"], ["SamePath", "file_q"],
             ["FileContains", ""], ["FileContains", "hello"], ["FileContainsM", ["Equals", ""]],
             ["DirContains", ["readme", "README", "makefile", "Makefile"]],
             ["DirContains", ["Makefile", "makefile", "README", "readme"]], ["DirContains", ["README", "Makefile"]],
             ["DirContainsM", ["Equals", ["Makefile", "README", "makefile", "readme"]]],
             ["HasPermissions", "1755"], ["HasPermissions", "0755"], ["HasPermissions", "0644"],
             ["Always"], ["Never"]]
    return L


def combos(domain, subs, rng, depth):
    """Thunks, each building one expression of one more level from ``subs(domain)``."""
    out = []
    s = lambda d=domain: subs(d)  # noqa: E731
    out.append(lambda: ["Not", s()])
    out.append(lambda: ["MatchesAny", [s() for _ in range(rng.randint(0, 3))]])
    out.append(lambda: ["MatchesAll", [s() for _ in range(rng.randint(0, 3))], rng.random() < 0.3])
    out.append(lambda: ["Annotate", rng.choice(["note", "\xe9 note", ""]), s()])
    for name, (f, src, tgt) in PREPROCESSORS.items():
        if src == domain:
            out.append(lambda name=name, tgt=tgt: ["AfterPreprocessing", name, subs(tgt)]
                       + ([False] if rng.random() < 0.3 else []))
    if domain in ("list", "lstr"):
        el = "int" if domain == "list" else "str"
        out.append(lambda: ["AllMatch", subs(el)])
        out.append(lambda: ["AnyMatch", subs(el)])
        out.append(lambda: ["MatchesListwise", [subs(el) for _ in range(rng.randint(0, 4))],
                            rng.random() < 0.3])
        out.append(lambda: ["MatchesSetwise", [subs(el) for _ in range(rng.randint(0, 4))]])
        out.append(lambda: ["MatchesSetwise", [subs(el) for _ in range(rng.randint(2, 4))]])
        out.append(lambda: ["MatchesSetwise", [subs(el)] * rng.randint(1, 3), True])
    if domain == "dict":
        keys = ["a", "b", "c", "\xe9", "#1", "@j1", "@j2"]
        for op in ("MatchesDict", "ContainsDict", "ContainedByDict"):
            out.append(lambda op=op: [op, {k: subs("int") for k in rng.sample(keys, rng.randint(0, 3))}])
    if domain == "obj":
        out.append(lambda: ["MatchesStructure", {k: subs("int" if k != "s" else "str")
                                                 for k in rng.sample(["a", "b", "s"], rng.randint(0, 3))}])
        out.append(lambda: ["MatchesStructureUpdate",
                            {k: subs("int" if k != "s" else "str") for k in rng.sample(["a", "b", "s"], rng.randint(0, 3))},
                            {k: (None if rng.random() < 0.4 else subs("int" if k != "s" else "str"))
                             for k in rng.sample(["a", "b", "s"], rng.randint(1, 3))}])
    if domain == "exc":
        out.append(lambda: ["MatchesException",
                            ["type_m", rng.choice(["ValueError", "Exception", "KeyError"]), subs("str")]])
    if domain == "call":
        out.append(lambda: ["Raises", subs("exc")])
        out.append(lambda: ["Raises", subs("exc")])
    if domain == "warncall":
        wm = lambda: ["WarningMessage", rng.choice(list(WARN_TYPES)),  # noqa: E731
                      subs("str") if rng.random() < 0.7 else None]
        out.append(lambda: ["Warnings", ["AnyMatch", wm()]])
        out.append(lambda: ["Warnings", ["AllMatch", wm()]])
        out.append(lambda: ["Warnings", ["MatchesListwise", [wm() for _ in range(rng.randint(0, 2))], False]])
        out.append(lambda: ["IsDeprecated", subs("str")])
    if domain == "path":
        out.append(lambda: ["DirContainsM", subs("lstr")])
        out.append(lambda: ["FileContainsM", subs("str")])
        out.append(lambda: ["FileContains", rng.choice(["hello", "", "line1\nline2\n", "nope"])])
        out.append(lambda: ["HasPermissions", rng.choice(["0644", "0600", "0755", "0777"])])
        out.append(lambda: ["TarballContains", rng.choice([["p", "q/r"], ["q/r", "p"], ["only"], []])])
    return out


def random_expr(rng, domain, depth):
    if depth <= 0 or rng.random() < 0.2:
        return rng.choice(leaves(domain))
    return rng.choice(combos(domain, lambda d: random_expr(rng, d, depth - 1), rng, depth))()


def domain_values(expr_domain, expr):
    """Values an expression of this domain may be applied to (restricting partial matchers)."""
    if expr_domain in ("call", "warncall") and (expr_domain == "warncall" or uses(expr, ("Warnings", "IsDeprecated"))):
        vals = values_of("warncall")
        e = expr
        while e[0] in ("Not", "Annotate"):
            e = e[1] if e[0] == "Not" else e[2]
        if e[0] not in ("Warnings", "IsDeprecated"):
            # (which sub-matchers a combinator consults before one raises is not specified: the callable that warns and
            # then breaks is only offered where calling it is the first thing that happens)
            vals = [v for v in vals if "raise" not in v[1]]
        return vals
    if expr_domain == "path":
        vals = values_of("path")
        if uses(expr, ("FileContains", "FileContainsM")):
            vals = [v for v in vals if v[1] in ("file_a", "file_e", "file_m", "link_a", "missing",
                                                "dir_d/x", "dir_d/../file_a", "file_bin", "link_in/../file_q",
                                                "deep/file_q", "file_q")]

        def reads_file_first(e):
            # (which sub-matchers a combinator consults before one raises is not specified: the undecodable
            # file is only offered where reading it is the first thing that happens)
            while e[0] in ("Not", "Annotate"):
                e = e[1] if e[0] == "Not" else e[2]
            return e[0] == "FileContains" or (e[0] == "FileContainsM" and not uses(e[1], ("Raises", "raises")))
        if not reads_file_first(expr):
            vals = [v for v in vals if v[1] != "file_bin"]
        if uses(expr, ("HasPermissions",)):
            vals = [v for v in vals if v[1] != "missing"]
        if uses(expr, ("TarballContains",)):
            vals = [v for v in vals if v[1].endswith(".tar")]
        return vals
    return values_of(expr_domain)


def uses(expr, names):
    if isinstance(expr, list):
        if expr and expr[0] in names:
            return True
        return any(uses(x, names) for x in expr)
    if isinstance(expr, dict):
        return any(uses(x, names) for x in expr.values())
    return False


def snapshot(obj, depth=0, seen=None):
    """Deep structural snapshot of a matcher (or value) for mutation detection."""
    seen = seen if seen is not None else set()
    if depth > 12:
        return "..."
    if isinstance(obj, (int, float, str, bytes, bool, type(None))):
        return (type(obj).__name__, obj)
    if isinstance(obj, (list, tuple)):
        return (type(obj).__name__, tuple(snapshot(x, depth + 1, seen) for x in obj))
    if isinstance(obj, (set, frozenset)):
        return (type(obj).__name__, tuple(sorted(map(repr, obj))))
    if isinstance(obj, dict):
        return ("dict", tuple(sorted((repr(k), snapshot(v, depth + 1, seen)) for k, v in obj.items())))
    if isinstance(obj, type) or callable(obj) and not hasattr(obj, "match"):
        return ("callable", getattr(obj, "__qualname__", repr(type(obj))))
    if isinstance(obj, BaseException):
        return ("exc", type(obj).__name__, snapshot(obj.args, depth + 1, seen))
    if id(obj) in seen:
        return ("cycle", type(obj).__name__)
    seen.add(id(obj))
    d = getattr(obj, "__dict__", None)
    if d is None:
        return ("opaque", type(obj).__name__)
    return (type(obj).__name__, tuple(sorted((k, snapshot(v, depth + 1, seen)) for k, v in d.items())))
