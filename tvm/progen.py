"""Generators / enumerators of test programs (see programs.py for the format)."""

import itertools

BEH9 = ["ok", "fail", "error", "skip", "xfail", "uxs", "multi", "kbd", "exit"]
RAISE_KINDS = ["fail", "error", "skip", "xfail", "uxs", "kbd", "exit", "kbdsub", "exitsub", "basedirect", "genexit",
               "skipsub", "failsub", "mismatch", "xfail_err", "skip_empty", "skip2", "unhashable", "surrogate"]


class Tok:
    def __init__(self):
        self.n = 0

    def __call__(self, prefix="T"):
        self.n += 1
        return "<<%s%d>>" % (prefix, self.n)


def beh_actions(beh, tok, where):
    """One stage behaviour -> list of actions."""
    if beh == "ok":
        return []
    if beh == "multi":
        return [["multi", [["raise", "error", tok("M")], ["raise", "error", tok("M")]], tok("MM")]]
    return [["raise", beh, tok(beh[:1].upper())]]


def triple_program(su, te, td, cleanup_beh=None):
    tok = Tok()
    p = {"su_pre": [], "su": [], "test": [], "td": [], "td_pre": []}
    if cleanup_beh is not None:
        p["su_pre"].append(["cleanup", "c0", beh_actions(cleanup_beh, tok, "c0")])
    p["su"] += beh_actions(su, tok, "setUp")
    p["test"] += beh_actions(te, tok, "test")
    p["td"] += beh_actions(td, tok, "tearDown")
    return p


def enum_triples():
    for su, te, td in itertools.product(BEH9, repeat=3):
        for cl in [None] + BEH9:
            yield {"su": su, "te": te, "td": td, "cl": cl}


def random_raise(rng, tok, kinds=RAISE_KINDS, custom=(), depth=0):
    r = rng.random()
    if r < 0.12 and depth < 2:
        n = rng.randint(1, 3) if (depth or rng.random() < 0.9) else 0     # now and then: carrying nothing
        sub_kinds = ["fail", "error", "failsub"] + list(custom)
        if "kbd" in kinds and rng.random() < 0.3:
            sub_kinds += ["kbd", "exit"]     # e.g. stacked fixtures interrupted while setting up
        subs = [random_raise(rng, tok, sub_kinds, custom, depth + 1) for _ in range(n)]
        return ["multi", subs, tok("MM")]
    pool = list(kinds) + list(custom)
    k = rng.choice(pool)
    return ["raise", k, tok(k[:2].upper())]


def random_program(rng, *, max_cleanups=4, kinds=RAISE_KINDS, p_raise=0.35, features=()):
    """Random program.  ``features``: subset of
    {"expect","force","decor","noupcall","handlers","patch","fixture","details","onexc",
     "onexc_raise","nested_cleanup","truthy_return","late_handler","mismatch_details"}"""
    tok = Tok()
    feats = set(features)
    p = {"su_pre": [], "su": [], "test": [], "td_pre": [], "td": [], "scratch": {}}
    custom = []
    if "handlers" in feats and rng.random() < 0.5:
        hs = []
        if rng.random() < 0.3:
            custom.append("custom:CustomFalsy")   # no handler of its own: the Exception catch-all
        pool = ["CustomA", "CustomB", "CustomC"] + (["CustomBase"] if "base_handler" in feats else [])
        for name in rng.sample(pool, rng.randint(1, 3)):
            report = rng.choice(["skip", "failure", "error", "xfail", "uxs"])
            hs.append([name, report, rng.choice([0, 0, 0, 1, 2])])
            custom.append("custom:" + name)
        p["handlers"] = hs
        if "CustomA" in [h[0] for h in hs] and rng.random() < 0.5:
            custom.append("custom:CustomB")  # subclass of CustomA
        custom = sorted(set(custom))
    n_cleanups = [0]

    def cleanup_body(depth):
        body = []
        if "details" in feats and rng.random() < 0.3:
            body.append(detail_action(rng, tok, feats))
        if "nested_cleanup" in feats and depth < 2 and n_cleanups[0] < max_cleanups + 2 \
                and rng.random() < 0.3:
            n_cleanups[0] += 1
            body.append(["cleanup", "c%d" % n_cleanups[0], cleanup_body(depth + 1)] + (["kw"] if rng.random() < 0.2 else []))
        if "patch" in feats and rng.random() < 0.2:
            body.append(patch_action(rng, p))
        if "fixture" in feats and rng.random() < 0.12:
            # a fixture used from inside a cleanup: its clean-up and its details are registered while the
            # cleanups are already running
            body.append(fixture_action(rng, tok, False, False))
        if "expect" in feats and rng.random() < 0.15:
            body.append(expect_action(rng, tok, feats))
        if rng.random() < p_raise:
            body.append(random_raise(rng, tok, kinds, custom))
        elif "truthy_return" in feats and rng.random() < 0.3:
            body.append(["return", rng.choice([1, "x", True])])
        return body

    def stage(name):
        acts = []
        n = rng.randint(0, 3)
        for _ in range(n):
            r = rng.random()
            if r < 0.04 and "nested_cleanup" in feats:
                # the very same callable with the same arguments registered twice, another cleanup in between
                n_cleanups[0] += 1
                acts += [["cleanup_dup", "dup"], ["cleanup", "c%d" % n_cleanups[0], []], ["cleanup_dup", "dup"]]
            elif r < 0.45 and n_cleanups[0] < max_cleanups:
                n_cleanups[0] += 1
                acts.append(["cleanup", "c%d" % n_cleanups[0], cleanup_body(0)] + (["kw"] if rng.random() < 0.2 else []))
            elif r < 0.55 and "expect" in feats:
                acts.append(expect_action(rng, tok, feats))
            elif r < 0.62 and "force" in feats:
                acts.append(["force"])
            elif r < 0.72 and "patch" in feats:
                acts.append(patch_action(rng, p))
            elif r < 0.80 and "fixture" in feats:
                acts.append(fixture_action(rng, tok, "kbd" if "bad_fixture_detail_kbd" in feats else "bad_fixture_detail" in feats,
                                           "old_style_fixture" in feats))
            elif r < 0.90 and "details" in feats:
                acts.append(detail_action(rng, tok, feats))
            elif r < 0.95 and "onexc" in feats:
                acts.append(["onexc", tok("H"), "onexc_raise" in feats and rng.random() < 0.4]
                            + (["eq"] if rng.random() < 0.4 else []))
            elif "late_handler" in feats and custom and rng.random() < 0.5:
                acts.append(["handler", rng.choice(custom)[7:],
                             rng.choice(["skip", "failure", "error"]), 0])
        if rng.random() < p_raise:
            acts.append(random_raise(rng, tok, kinds, custom))
        elif "truthy_return" in feats and name != "setUp" and rng.random() < 0.12:
            acts.append(["return", rng.choice([1, "value", [0], True])])   # a stage that returns something
        return acts

    if rng.random() < 0.3:
        p["su_pre"] = stage("setUp")
    p["su"] = stage("setUp")
    p["test"] = stage("test")
    if rng.random() < 0.2:
        p["td_pre"] = stage("tearDown")
    p["td"] = stage("tearDown")
    if "noupcall" in feats:
        r = rng.random()
        if r < 0.08:
            p["upcall_su"] = False
        elif r < 0.16:
            p["upcall_td"] = False
    if p.get("upcall_su", True) and p.get("upcall_td", True) and rng.random() < 0.06:
        p["synthetic_module"] = rng.choice(["nofile", "unimported"])
    if "setup_returns" in feats and rng.random() < 0.15:
        p["setup_returns"] = rng.choice([1, "value", [0]])
    if "xfail_decor" in feats and rng.random() < 0.08:
        p["decor"] = "stdlib_expectedFailure"
    if "clone" in feats and rng.random() < 0.1:
        p["clone_id"] = "prog.clone"
    if "eq_exc" in feats and rng.random() < 0.12:
        # two stages raise exceptions that compare equal / the very same object
        kind = rng.choice(["eqexc", "sameobj", "skip-then-eqany", "eqany-then-kbd"])
        t = tok("EQ")
        if kind == "eqany-then-kbd":
            # an error whose class compares by value, and later a real interrupt that happens to carry the same arguments
            p["test"].append(["raise", "eqany", t])
            p["su_pre"].insert(0, ["cleanup", "ceq", [["raise", "kbd", t]]])
        elif kind == "skip-then-eqany":
            # a skip, and later an error whose class compares by value and so is == that skip's exception
            p["test"].append(["raise", "skip", t])
            p["su_pre"].insert(0, ["cleanup", "ceq", [["raise", "eqany", t]]])
        else:
            p["test"].append(["raise", kind, t])
            p["su_pre"].insert(0, ["cleanup", "ceq", [["raise", kind, t]]])
    if "own_exc" in feats:
        r = rng.random()
        if r < 0.12:
            p["own_skip"] = True
        elif r < 0.2:
            p["own_fail"] = True
    if "force" in feats and rng.random() < 0.05:
        p["force_attr"] = rng.choice(["class", "instance"])
    if "onexc" in feats and rng.random() < 0.15:
        p["onexc_pre"] = [tok("HP")]
    if "decor" in feats and rng.random() < 0.12:
        p["decor"] = rng.choice(["skip_method", "skip_class", "skipIf_true", "skipIf_false",
                                 "skipUnless_false", "stdlib_skip_method"])
        if rng.random() < 0.3:
            p["decor_reason"] = ""
    if p.get("decor") == "stdlib_expectedFailure":
        # unittest's contract for the decorator is "whatever Exception the method raises is the expected
        # failure" - a MultipleExceptions (an Exception) included, whatever it holds.  Interrupts packed
        # into one raised by the decorated METHOD ITSELF are therefore not generated (C01 speaks about
        # exceptions that do not derive from Exception).
        def soften(a):
            if a[0] == "multi":
                return ["multi", [soften(x) for x in a[1]], a[2]]
            if a[0] == "raise" and a[1] in ("kbd", "exit", "kbdsub", "exitsub", "basedirect", "genexit"):
                return ["raise", "error", a[2]]
            return a
        p["test"] = [soften(a) if a[0] == "multi" else a for a in p["test"]]
        # TestCase.__init__ stores the @expectedFailure wrapper, bound to THAT instance, as an instance
        # attribute; a shallow clone would run the original's method.  Not combined (see DESIGN §6).
        p.pop("clone_id", None)
    return p


def patch_action(rng, p):
    attr = rng.choice(["a", "b", "c", "missing1", "missing2", "prop"])
    if attr in ("a", "b", "c") and attr not in p["scratch"]:
        p["scratch"][attr] = rng.choice([None, 0, "orig-" + attr, False, "@any", "@amb"])
    return ["patch", attr, rng.choice([None, 1, "patched", 0])]


def expect_action(rng, tok, feats):
    details = []
    if "mismatch_details" in feats:
        for name in rng.sample(["foo", "traceback", "Failed expectation", "mm", "foo-1"],
                               rng.randint(0, 2)):
            details.append([name, tok("D").encode().hex()])
    ok = rng.random() < 0.35
    if "peek" in feats and "mismatch_details" in feats and not ok and rng.random() < 0.25:
        # a mismatch detail evaluated lazily, whose source moves on after the expectation failed
        cell = "mcell" + tok("L")
        free = [n for n in ["mm-lazy", "foo", "log"] if n not in [d[0] for d in details]]
        details.append([rng.choice(free), "cell:" + cell])
        return ["seq", [["expect", tok("E"), False, details],
                        ["setcell", cell, (cell + "-later").encode().hex()]]]
    return [rng.choice(["expect", "expect", "assert"]), tok("E"), ok, details]


DETAIL_NAMES = ["foo", "foo-1", "traceback", "traceback-1", "traceback-2", "Failed expectation",
                "Failed expectation-1", "twisted-log", "", "bar", "é-detail", "load 50%", "{braces}"]


def detail_action(rng, tok, feats):
    name = rng.choice(DETAIL_NAMES)
    pid = tok("P")
    r = rng.random()
    if r < 0.2:
        return ["lazy", name, pid, "cell" + pid]
    if r < 0.22 and "peek" in feats:
        # a lazily evaluated detail that somebody reads before the outcome, and whose source moves on
        cell = "cell" + pid
        return ["seq", [["lazy", name, pid, cell], ["peek"], ["setcell", cell, (pid + "-later").encode().hex()]]]
    if r < 0.24 and "peek" in feats:
        return ["peek"]
    if r < 0.28 and "peek" in feats:
        return ["setcell", "cell<<P1>>", pid.encode().hex()]
    if r < 0.3:
        return ["detail", name, pid, [], "bin"]  # empty payload
    if r < 0.36:
        # a UTF-8 text detail read in chunks that split a multi-byte character (what attach_file /
        # content_from_stream produce for a non-ASCII log longer than one chunk)
        whole = ("caf\xe9 \u2603 " + pid).encode("utf8")
        cut = whole.index(b"\xa9")            # between the two bytes of the e-acute
        return ["detail", name, pid, [whole[:cut].hex(), whole[cut:cut + 3].hex(), whole[cut + 3:].hex()], "text"]
    chunks = []
    for _ in range(rng.randint(1, 3)):
        kind = rng.random()
        if kind < 0.2:
            chunks.append("")
        elif kind < 0.6:
            chunks.append((pid + "|").encode().hex())
        else:
            chunks.append(bytes([rng.randrange(256) for _ in range(rng.randint(1, 5))]).hex()
                          + pid.encode().hex())
    if not any(pid.encode().hex() in c for c in chunks):
        chunks.append(pid.encode().hex())
    ctype = rng.choice(["bin", "bin", "latin"])
    return ["detail", name, pid, chunks, ctype]


def fixture_spec(rng, tok, depth=0):
    spec = {"details": [], "setup": "ok", "cleanup": "ok"}
    for name in rng.sample(["foo", "fx", "traceback", "log", "foo-1", "load 50%", "{braces}"], rng.randint(0, 2)):
        spec["details"].append([name, tok("F").encode().hex()])
    r = rng.random()
    if r < 0.2:
        # (a fixture used by ANOTHER fixture's _setUp is never interrupted: fixtures 4.3.2's own Fixture.useFixture
        # trips over the cleaned-up child - getDetails() of None - and hands testtools a TypeError instead)
        spec["setup"] = rng.choice(["error", "fail", "kbd"] if depth == 0 else ["error", "fail", "error"])
    elif r < 0.35:
        spec["cleanup"] = rng.choice(["error", "fail"])
    if rng.random() < 0.3:
        spec["live"] = True
    if spec["setup"] == "ok" and spec["cleanup"] == "ok" and rng.random() < 0.15:
        spec["cleanup_override"] = True
    elif depth == 0 and spec["setup"] == "ok" and not spec.get("live") and rng.random() < 0.12:
        # a fixture whose getDetails() hands out its live mapping, empty at setUp() and filled while the test uses it
        spec["late_fill"] = True
    if depth < 1 and rng.random() < 0.25 and not spec.get("late_fill"):     # (its getDetails is its own mapping only)
        spec["nested"] = fixture_spec(rng, tok, depth + 1)
    return spec


def fixture_action(rng, tok, bad_detail=False, old_style=False):
    spec = fixture_spec(rng, tok)
    if old_style and rng.random() < 0.25:
        # a fixture written against the older API: it overrides setUp() itself (still supported), attaches
        # its details and then fails or is interrupted - nobody has cleaned it up when useFixture sees that
        spec["setup"] = "ok"
        spec["setup_override"] = rng.choice(["error", "fail", "kbd", "exit", "multi2"])
        spec.pop("nested", None)
        spec.pop("late_fill", None)
    if bad_detail and rng.random() < 0.3:
        # only where testtools itself evaluates the detail (successful setUp -> gathering cleanup);
        # a failing _setUp would make the fixtures library evaluate it before its own clean-up
        spec["bad_detail"] = bad_detail       # True: reading it raises an error; "kbd": the user interrupts just then
        if bad_detail == "kbd":
            spec.pop("setup_override", None)  # (a fixture that did set up: its clean-up is owed)
        spec["setup"] = "ok"
        spec.pop("nested", None)
        spec.pop("late_fill", None)
    return ["fixture", tok("X"), spec]
