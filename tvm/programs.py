"""Test programs as data, and an interpreter that runs them as real testtools.TestCase code.

A program is a JSON-able dict::

    {"su_pre": [A..], "su": [A..], "upcall_su": true,
     "test": [A..],
     "td_pre": [A..], "td": [A..], "upcall_td": true,
     "decor": null | "skip_method" | "skip_class" | "skipIf_true" | "skipIf_false" | "skipUnless_false",
     "handlers": [[exc-name, report, position], ..],      # user entries for exception_handlers
     "scratch": {"attr": value, ..}}                      # initial attributes of the scratch object

Actions ``A`` (lists, first element is the opcode)::

    ["raise", kind, tok]                       kind: fail error skip xfail uxs kbd exit kbdsub exitsub
                                                     skipsub failsub mismatch custom:<Name>
    ["multi", [A_raise_or_multi, ..], tok]     raise MultipleExceptions of the listed constituents
    ["cleanup", cid, [A..]]                    self.addCleanup(<run actions>)
    ["detail", name, pid, [hex chunks], ctype] self.addDetail(name, Content)   ctype: "text"|"bin"|"latin"
    ["lazy", name, pid, cell]                  self.addDetail(name, Content reading cell at evaluation)
    ["setcell", cell, hex]                     change a lazy cell
    ["cleanup_dup", cid]                       self.addCleanup(<the environment's one function>, cid)
    ["patch", attr, value]                     self.patch(scratch, attr, value)
    ["fixture", fid, spec]                     self.useFixture(...)
    ["expect", eid, ok, [[dname, hex]..]]      self.expectThat(...)  (ok=false: mismatch carrying details)
    ["assert", eid, ok, [[dname, hex]..]]      self.assertThat(...)
    ["force"]                                  self.force_failure = True
    ["onexc", hid, raises(, "eq")]             self.addOnException(handler); "eq": a callable object equal to its siblings
    ["handler", exc-name, report, position]    insert into self.exception_handlers now
    ["return", value]                          stop this action list returning value

The interpreter writes an execution log of ``(seq, tag, data)`` using the same
sequence counter as the result recorders.
"""

import sys
import unittest

from .recorders import next_seq

BASE_KINDS = ("kbd", "exit", "kbdsub", "exitsub", "basedirect", "genexit")
FAILING = {"fail", "error", "failsub", "mismatch", "eqexc", "sameobj", "emptymulti", "xfail_err", "unhashable",
           "eqany", "surrogate"} | set(BASE_KINDS)

KIND_OUTCOME = {
    "eqexc": "addError", "sameobj": "addError", "emptymulti": "addError", "xfail_err": "addError",
    "unhashable": "addError", "eqany": "addError", "surrogate": "addError",
    "skip_empty": "addSkip", "skip2": "addSkip",
    "fail": "addFailure", "failsub": "addFailure", "mismatch": "addFailure",
    "error": "addError", "skip": "addSkip", "skipsub": "addSkip",
    "xfail": "addExpectedFailure", "uxs": "addUnexpectedSuccess",
    "kbd": "addError", "exit": "addError", "kbdsub": "addError", "exitsub": "addError", "basedirect": "addError",
    "genexit": "addError",
}
REPORT_OUTCOME = {"skip": "addSkip", "failure": "addFailure", "error": "addError",
                  "xfail": "addExpectedFailure", "uxs": "addUnexpectedSuccess"}
UNSUCCESSFUL = {"addError", "addFailure", "addUnexpectedSuccess"}


class MyKbd(KeyboardInterrupt):
    pass


class MyExit(SystemExit):
    pass


class MyBaseDirect(BaseException):
    """Derives from BaseException directly, like asyncio.CancelledError or GeneratorExit."""


class MySkip(unittest.SkipTest):
    pass


class MyFail(AssertionError):
    pass


class OwnSkip(Exception):
    """A skipException that is not a unittest.SkipTest."""


class OwnFail(Exception):
    """A failureException that is not an AssertionError."""


class CustomA(Exception):
    pass


class CustomB(CustomA):
    pass


class CustomC(Exception):
    pass


class CustomBase(BaseException):
    """Derives from BaseException directly (like asyncio.CancelledError); may get a user handler."""


class CustomFalsy(Exception):
    """An exception object that happens to be falsy."""

    def __len__(self):
        return 0


class EqExc(Exception):
    """Exceptions that compare equal when their arguments do."""

    def __eq__(self, other):
        return type(other) is EqExc and self.args == other.args

    def __hash__(self):
        return hash(self.args)


class UnhashableError(Exception):
    """Defines __eq__ and therefore (like any dataclass exception) has no __hash__."""

    def __eq__(self, other):
        return type(other) is UnhashableError and self.args == other.args

    __hash__ = None


class EqAnyError(Exception):
    """Compares equal to ANY exception carrying the same arguments (value-style equality)."""

    def __eq__(self, other):
        return isinstance(other, BaseException) and self.args == other.args

    def __hash__(self):
        return hash(self.args)


CUSTOM = {"CustomA": CustomA, "CustomB": CustomB, "CustomC": CustomC, "CustomFalsy": CustomFalsy,
          "CustomBase": CustomBase}


class _EqAnything:
    """Compares equal to everything (like unittest.mock.ANY)."""

    def __eq__(self, other):
        return True

    def __ne__(self, other):
        return False

    __hash__ = None

    def __repr__(self):
        return "<ANYTHING>"


class _AmbiguousEq:
    """== gives an object without a truth value (like an array)."""

    class _NoTruth:
        def __bool__(self):
            raise ValueError("The truth value of this comparison is ambiguous")

    def __eq__(self, other):
        return self._NoTruth()

    __ne__ = __eq__
    __hash__ = None

    def __repr__(self):
        return "<ARRAY-LIKE>"


SPECIAL_VALUES = {"@any": _EqAnything(), "@amb": _AmbiguousEq()}


class Scratch:
    """Object whose attribute traffic is logged (makes patch() undo observable)."""

    def __init__(self, env, initial):
        object.__setattr__(self, "_env", env)
        for k, v in initial.items():
            # ("@any" / "@amb": pre-existing values with an __eq__ of their own)
            object.__setattr__(self, k, SPECIAL_VALUES.get(v, v) if isinstance(v, str) else v)

    def __setattr__(self, name, value):
        if name == "prop":
            return object.__setattr__(self, name, value)   # the property logs for itself
        self._env.log("scratch_set", name, value, self._env.in_patch)
        object.__setattr__(self, name, value)

    def __delattr__(self, name):
        self._env.log("scratch_del", name, self._env.in_patch)
        object.__delattr__(self, name)

    # an attribute served by a data descriptor (patch() must restore it, not delete it)
    @property
    def prop(self):
        return self.__dict__.get("_prop_value", "prop-default")

    @prop.setter
    def prop(self, value):
        self._env.log("scratch_set", "prop", value, self._env.in_patch)
        self.__dict__["_prop_value"] = value

    def snapshot(self):
        d = {k: v for k, v in self.__dict__.items() if k not in ("_env", "_prop_value")}
        d["prop"] = self.prop
        return d


class Env:
    def __init__(self, program):
        self.program = program
        self.events = []
        self.in_patch = False
        self.cells = {}
        self.raised = []        # (kind, tok, exception object) in raise order, flattened
        self.scratch = Scratch(self, dict(program.get("scratch", {})))
        self.onexc_calls = []   # (seq, hid, exc object)
        self.fixtures = {}
        self.shared_exc = {}

    def log(self, tag, *data):
        self.events.append((next_seq(), tag) + data)

    run_index = 0

    def reset_for_rerun(self):
        self.run_index += 1
        self.events = []
        self.raised = []
        self.onexc_calls = []
        self.cells = {}

    def tags(self, *names):
        return [e for e in self.events if e[1] in names]


def _content(chunks_hex, ctype):
    from testtools.content import Content
    from testtools.content_type import ContentType
    chunks = [bytes.fromhex(h) for h in chunks_hex]
    ct = {"text": ContentType("text", "plain", {"charset": "utf8"}),
          "latin": ContentType("text", "plain"),
          "bin": ContentType("application", "octet-stream")}[ctype]
    return Content(ct, lambda: list(chunks))


# (non-ASCII on purpose: the text ends up in "Failed expectation" details and MismatchError tracebacks)
MISMATCH_PREFIX = "mismatch-\xe9\u2603-"


class TokMismatch:
    def __init__(self, eid, details, env=None):
        self.eid = eid
        self._details = details
        self._env = env

    def describe(self):
        return MISMATCH_PREFIX + self.eid

    def get_details(self):
        from testtools.content import Content
        from testtools.content_type import ContentType
        out = {}
        for name, h in self._details:
            if h.startswith("cell:"):
                # a detail that is evaluated lazily (a log being appended to, say): what counts is what it
                # yields when the outcome is reported
                cell, env = h[5:], self._env
                env.cells.setdefault(cell, b"initial-" + cell.encode())
                out[name] = Content(ContentType("application", "octet-stream"), lambda cell=cell, env=env: [env.cells[cell]])
            else:
                out[name] = _content([h], "bin")
        return out


class TokMatcher:
    def __init__(self, eid, ok, details, env=None):
        self.eid, self.ok, self.details, self.env = eid, ok, details, env

    def match(self, value):
        if self.ok:
            return None
        tm = TokMismatch(self.eid, self.details, self.env)
        if len(self.eid) % 2:
            return tm
        # the stock Mismatch class, the way a matcher that collects as it goes uses it: handed a (still empty) dict at
        # construction, which is filled in afterwards
        from testtools.matchers import Mismatch
        bag = {}
        mm = Mismatch(tm.describe(), bag)
        bag.update(tm.get_details())
        return mm

    def __str__(self):
        return "TokMatcher(%s)" % self.eid


def _make_exc_info(env, case, action):
    """Raise-and-catch one constituent, returning its exc_info (no exception context chain)."""
    try:
        _do_raise(env, case, action, constituent=True)
    except BaseException:
        info = sys.exc_info()
    return info


def _do_raise(env, case, action, constituent=False):
    from testtools import MultipleExceptions
    op = action[0]
    if op == "multi":
        infos = []
        for sub in action[1]:
            infos.append(_make_exc_info(env, case, sub))
        env.log("raise_multi", action[2], len(infos))
        if not infos:
            # a MultipleExceptions that carries nothing: still an exception raised by user code (an error)
            exc = MultipleExceptions()
            env.raised.append(("emptymulti", action[2], exc))
            env.log("raise", "emptymulti", action[2])
            raise exc
        raise MultipleExceptions(*infos)
    kind, tok = action[1], action[2]
    if kind == "genexit" and getattr(env, "deferred_runner", False):
        # Under the Deferred runners GeneratorExit is the generator protocol's own signal (their inlineCallbacks
        # generators are closed with it when a run is abandoned); a stage raising it itself is asserted for RunTest only.
        kind = "basedirect"

    def note(exc):
        env.raised.append((kind, tok, exc))
        env.log("raise", kind, tok)
        return exc

    if kind == "fail":
        raise note((case.failureException if case is not None else AssertionError)(tok))
    if kind == "failsub":
        raise note(MyFail(tok))
    if kind == "error":
        raise note(ValueError(tok))
    if kind == "kbd":
        raise note(KeyboardInterrupt(tok))
    if kind == "exit":
        raise note(SystemExit(tok))
    if kind == "basedirect":
        raise note(MyBaseDirect(tok))
    if kind == "genexit":
        # (what g.throw(GeneratorExit) / an abandoned generator's clean-up lets out: a BaseException like the others)
        raise note(GeneratorExit(tok))
    if kind == "kbdsub":
        raise note(MyKbd(tok))
    if kind == "exitsub":
        raise note(MyExit(tok))
    if kind == "skipsub":
        raise note(MySkip(tok))
    if kind == "surrogate":
        # a message holding a lone surrogate (an os.fsdecode()d file name that is not valid UTF-8)
        raise note(ValueError(tok + " \udcff.log"))
    if kind == "unhashable":
        raise note(UnhashableError(tok))
    if kind == "eqany":
        raise note(EqAnyError(tok))      # tok is shared with an earlier skip on purpose
    if kind == "eqexc":
        raise note(EqExc(tok))          # tok is shared between several raises on purpose
    if kind == "sameobj":
        exc = env.shared_exc.setdefault(tok, ValueError(tok))
        raise note(exc)                 # the very same exception object raised again
    if kind.startswith("custom:"):
        raise note(CUSTOM[kind[7:]](tok))
    if kind == "skip":
        try:
            case.skipTest(tok)
        except BaseException as e:
            note(e)
            raise
    if kind == "mismatch":
        try:
            case.assertThat(tok, TokMatcher(tok, False, []))
        except BaseException as e:
            note(e)
            raise
    if kind == "xfail":
        def failing():
            raise case.failureException("XF:" + tok)
        try:
            case.expectFailure(tok, failing)
        except BaseException as e:
            note(e)
            raise
    if kind == "uxs":
        try:
            case.expectFailure(tok, lambda: None)
        except BaseException as e:
            note(e)
            raise
    if kind == "xfail_err":
        # expectFailure(reason, predicate): only the test's failure exception is the expected failure,
        # anything else the predicate raises is that error
        def erring():
            raise ValueError("XE:" + tok)
        try:
            case.expectFailure(tok, erring)
        except BaseException as e:
            note(e)
            raise
    if kind == "skip_empty":
        try:
            case.skipTest("")               # an explicitly empty reason is a reason
        except BaseException as e:
            note(e)
            raise
    if kind == "skip2":
        raise note(case.skipException(tok, "a second argument"))   # the reason is the first argument
    raise AssertionError("unknown kind %r" % (kind,))


def make_fixture(env, fid, spec):
    import fixtures

    class F(fixtures.Fixture):
        def _setUp(self):
            env.log("fixture_setup", fid)
            self.addCleanup(self._logged_cleanup)
            self._live = []
            self._own_details = {}
            for name, h in spec.get("details", []):
                if spec.get("late_fill"):
                    continue          # attached by the test while it uses the fixture (see the "fixture" op)
                if spec.get("live"):
                    # the callback hands out the fixture's own chunk list, emptied again at cleanUp
                    from testtools.content import Content
                    from testtools.content_type import ContentType
                    chunks = [bytes.fromhex(h)]
                    self._live.append(chunks)
                    self.addDetail(name, Content(ContentType("application", "octet-stream"),
                                                 lambda c=chunks: c))
                else:
                    self.addDetail(name, _content([h], "bin"))
            if spec.get("bad_detail"):
                from testtools.content import Content
                from testtools.content_type import ContentType

                def boom():
                    if spec["bad_detail"] == "kbd":
                        _do_raise(env, None, ["raise", "kbd", "FXD:" + fid])
                    raise RuntimeError("detail of %s cannot be evaluated" % fid)
                self.addDetail("zz-bad", Content(ContentType("text", "plain"), boom))
            nested = spec.get("nested")
            if nested is not None:
                self.useFixture(make_fixture(env, fid + ".n", nested))
            how = spec.get("setup", "ok")
            if how != "ok":
                _do_raise(env, None, ["raise", how, "FX:" + fid])

        if spec.get("late_fill"):
            def getDetails(self):
                return self._own_details          # the live mapping itself, not a snapshot

        if spec.get("setup_override"):
            def setUp(self):
                super().setUp()
                if spec["setup_override"] == "multi2":
                    # a composite old-style fixture reporting two failures of its parts at once (no SetupError:
                    # that is what fixtures.Fixture.setUp itself appends)
                    _do_raise(env, None, ["multi", [["raise", "error", "FX:" + fid + ".a"],
                                                    ["raise", "fail", "FX:" + fid + ".b"]], "FXM:" + fid])
                _do_raise(env, None, ["raise", spec["setup_override"], "FX:" + fid])

        if spec.get("cleanup_override"):
            # the older style: the undo lives in an overridden cleanUp() (still supported), not in addCleanup
            def cleanUp(self, raise_first=True):
                if getattr(self, "_live", None) is not None:
                    env.log("fixture_cleanup", fid)
                    for chunks in self._live:
                        del chunks[:]
                    self._live = None
                return super().cleanUp(raise_first)

        def _logged_cleanup(self):
            if spec.get("cleanup_override"):
                return
            env.log("fixture_cleanup", fid)
            for chunks in getattr(self, "_live", []):
                del chunks[:]
            how = spec.get("cleanup", "ok")
            if how != "ok":
                _do_raise(env, None, ["raise", how, "FXC:" + fid])

    f = F()
    env.fixtures[fid] = f
    return f


def _existing(case, name):
    """Bytes of the detail currently stored under ``name`` (None when the name is free)."""
    cur = case.getDetails().get(name)
    if cur is None:
        return None
    try:
        return b"".join(cur.iter_bytes()).hex()
    except Exception as e:  # noqa
        return repr(e).encode().hex()


def run_actions(env, case, actions, where):
    for a in actions:
        op = a[0]
        if op in ("raise", "multi"):
            _do_raise(env, case, a)
        elif op == "cleanup_dup":
            # ONE function object per run environment: registering it twice with the same argument gives two equal
            # (function, args, kwargs) entries
            env.log("reg", a[1], where)
            if not hasattr(env, "_dup_fn"):
                def _dup(cid):
                    env.log("cleanup_enter", cid)
                    env.log("cleanup_leave", cid)
                env._dup_fn = _dup
            case.addCleanup(env._dup_fn, a[1])
        elif op == "cleanup":
            cid, body = a[1], a[2]
            env.log("reg", cid, where)

            def cleanup(cid=cid, body=body):
                env.log("cleanup_enter", cid)
                r = run_actions(env, case, body, "cleanup:" + cid)
                env.log("cleanup_leave", cid)
                return r
            if len(a) > 3 and a[3] == "kw":
                # addCleanup(function, *arguments, **keywordArguments): the documented full form
                case.addCleanup(lambda cid, body=None, fn=cleanup: fn(cid, body), cid, body=body)
            else:
                case.addCleanup(cleanup)
        elif op == "detail":
            name, pid, chunks, ctype = a[1], a[2], a[3], a[4]
            env.log("detail", name, pid, _existing(case, name), "".join(chunks), ctype)
            case.addDetail(name, _content(chunks, ctype))
        elif op == "lazy":
            from testtools.content import Content
            from testtools.content_type import ContentType
            name, pid, cell = a[1], a[2], a[3]
            env.cells.setdefault(cell, b"initial-" + cell.encode())
            env.log("lazy", name, pid, _existing(case, name), cell)
            case.addDetail(name, Content(ContentType("application", "octet-stream"),
                                         lambda cell=cell: [env.cells[cell]]))
        elif op == "setcell":
            env.cells[a[1]] = bytes.fromhex(a[2])
        elif op == "seq":
            r = run_actions(env, case, a[1], where)
            if r is not None:
                return r
        elif op == "first_run_only":
            # behaviour that differs between two runs of the same instance (a flaky test, say)
            if env.run_index == 0:
                r = run_actions(env, case, a[1], where)
                if r is not None:
                    return r
        elif op == "peek":
            # somebody looks at the details collected so far (a handler dumping them, say)
            for content_object in list(case.getDetails().values()):
                try:
                    list(content_object.iter_bytes())
                except Exception:
                    pass
        elif op == "patch":
            had = a[1] in env.scratch.__dict__ or a[1] == "prop"
            old = env.scratch.prop if a[1] == "prop" else env.scratch.__dict__.get(a[1])
            env.log("patch", a[1], had, old, a[2])
            env.in_patch = True
            try:
                case.patch(env.scratch, a[1], a[2])
            finally:
                env.in_patch = False
        elif op == "fixture":
            f = make_fixture(env, a[1], a[2])
            env.log("use_fixture", a[1])
            case.useFixture(f)
            env.log("fixture_used", a[1])
            if a[2].get("late_fill"):
                for name, h in a[2].get("details", []):
                    f._own_details[name] = _content([h], "bin")
        elif op == "expect":
            eid, ok, details = a[1], a[2], a[3]
            if not ok:
                env.log("expect_mismatch", eid, details)
            case.expectThat(eid, TokMatcher(eid, ok, details, env))
            env.log("expect_returned", eid)
        elif op == "assert":
            eid, ok, details = a[1], a[2], a[3]
            if not ok:
                env.log("assert_mismatch", eid, details)
            try:
                case.assertThat(eid, TokMatcher(eid, ok, details, env))
            except BaseException as e:
                env.raised.append(("mismatch", eid, e))
                env.log("raise", "mismatch", eid)
                raise
            if not ok:
                env.log("assert_did_not_raise", eid)
        elif op == "force":
            env.log("force")
            case.force_failure = True
        elif op == "onexc":
            hid, raises = a[1], a[2]
            env.log("onexc_reg", hid)

            def handler(exc_info, hid=hid, raises=raises):
                env.onexc_calls.append((next_seq(), hid, exc_info[1]))
                env.log("onexc_called", hid, type(exc_info[1]).__name__)
                if raises:
                    raise RuntimeError("onexc-handler-raised:" + hid)
            if len(a) > 3 and a[3] == "eq":
                # a callable object that compares equal to its siblings: still a handler of its own
                handler = EqHandler(handler)
            case.addOnException(handler)
        elif op == "onexc_for":
            hid, toks = a[1], set(a[2])
            env.log("onexc_reg", hid)

            def handler(exc_info, hid=hid, toks=toks):
                env.onexc_calls.append((next_seq(), hid, exc_info[1]))
                hit = any(t in str(exc_info[1]) or t in repr(exc_info[1].args) for t in toks)
                env.log("onexc_called", hid, type(exc_info[1]).__name__, hit)
                if hit:
                    raise RuntimeError("onexc-handler-raised:" + hid)
            case.addOnException(handler)
        elif op == "handler":
            _insert_handler(env, case, a[1], a[2], a[3])
        elif op == "return":
            return a[1]
        else:
            raise AssertionError("unknown action %r" % (a,))
    return None


def _insert_handler(env, case, exc_name, report, position):
    from testtools import TestCase
    fn = {"skip": TestCase._report_skip, "failure": TestCase._report_failure,
          "error": TestCase._report_error, "xfail": TestCase._report_expected_failure,
          "uxs": TestCase._report_unexpected_success}[report]

    def handler(case_, result, err, fn=fn, exc_name=exc_name):
        env.log("user_handler", exc_name, report, (getattr(err, "args", None) or [None])[0])
        return fn(case_, result, err)
    pos = min(position, len(case.exception_handlers))
    case.exception_handlers.insert(pos, (CUSTOM[exc_name], handler))
    env.log("handler_inserted", exc_name, report, pos)


def build_case(program, env, runner_factory=None, default_result=None):
    """Build a fresh TestCase instance interpreting ``program``."""
    import testtools
    from testtools import TestCase
    env.deferred_runner = runner_factory is not None

    class Prog(TestCase):
        if runner_factory is not None:
            run_tests_with = runner_factory

        def setUp(self):
            if getattr(self, "_tvm_sibling", False):
                return super().setUp()       # another instance of the class, running test_sibling: no actions
            env.log("enter", "setUp")
            run_actions(env, self, program.get("su_pre", []), "setUp")
            if program.get("upcall_su", True):
                super().setUp()
            run_actions(env, self, program.get("su", []), "setUp")
            env.log("leave", "setUp")
            return program.get("setup_returns")

        def test(self):
            env.log("enter", "test")
            r = run_actions(env, self, program.get("test", []), "test")
            env.log("leave", "test")
            return r

        def test_sibling(self):
            pass

        def tearDown(self):
            if getattr(self, "_tvm_sibling", False):
                return super().tearDown()
            env.log("enter", "tearDown")
            run_actions(env, self, program.get("td_pre", []), "tearDown")
            if program.get("upcall_td", True):
                super().tearDown()
            run_actions(env, self, program.get("td", []), "tearDown")
            env.log("leave", "tearDown")

        if default_result is not None:
            def defaultTestResult(self):
                return default_result()

        def id(self):
            return "prog.test"

        if program.get("hook_adddetail"):
            # a subclass that overrides the documented extension point (to mirror details somewhere, say): whatever
            # the library itself attaches - tracebacks, failed expectations, mismatch details, reasons - goes through it
            def addDetail(self, name, content_object):
                env.log("adddetail_hook", name)
                return super().addDetail(name, content_object)

    if program.get("force_attr") == "class":
        Prog.force_failure = True
    if program.get("force_attr") == "class_false":
        Prog.force_failure = False      # the documented default, spelled out by a careful author
    if program.get("own_skip"):
        Prog.skipException = OwnSkip
    if program.get("own_fail"):
        Prog.failureException = OwnFail

    if program.get("runner_attaches") and runner_factory is None:
        # a custom runner factory (run_tests_with) that, while it is being made for a run, attaches a detail to the
        # case and registers a cleanup on it - both belong to that run
        def attaching_factory(case, handlers=None, last_resort=None):
            run_actions(env, case, [["detail", "from-runner", "<<PR0>>", ["<<PR0>>".encode().hex()], "bin"],
                                    ["cleanup", "c-runner", []]], "runner")
            return testtools.RunTest(case, handlers, last_resort)
        Prog.run_tests_with = staticmethod(attaching_factory)
    if program.get("rtw"):
        Prog.test = testtools.run_test_with(testtools.RunTest)(Prog.test)
    decor = program.get("decor")
    reason = program.get("decor_reason", "DECOR-skip")
    if decor == "skip_method":
        Prog.test = testtools.skip(reason)(Prog.test)
    elif decor == "skipIf_true":
        Prog.test = testtools.skipIf(True, reason)(Prog.test)
    elif decor == "skipIf_false":
        Prog.test = testtools.skipIf(False, reason)(Prog.test)
    elif decor == "skipUnless_false":
        Prog.test = testtools.skipUnless(False, reason)(Prog.test)
    elif decor == "skip_class":
        Prog = testtools.skip(reason)(Prog)
    elif decor == "stdlib_skip_method":
        Prog.test = unittest.skip(reason)(Prog.test)
    elif decor == "stdlib_expectedFailure":
        Prog.test = unittest.expectedFailure(Prog.test)
    if program.get("synthetic_module"):
        # a test class that lives in a module without a __file__ (built by exec, a REPL, a frozen / zipped application)
        import sys
        import types
        if program["synthetic_module"] == "nofile":
            sys.modules.setdefault("tvm_nofile_module", types.ModuleType("tvm_nofile_module"))
            Prog.__module__ = "tvm_nofile_module"
        else:
            Prog.__module__ = "tvm_module_that_was_never_imported"
    case = Prog("test")
    if program.get("force_attr") == "instance":
        case.force_failure = True
    for exc_name, report, position in program.get("handlers", []):
        _insert_handler(env, case, exc_name, report, position)
    for hid in program.get("onexc_pre", []):
        # a handler registered between construction and run() (e.g. by a harness)
        env.log("onexc_reg", hid)

        def handler(exc_info, hid=hid):
            env.onexc_calls.append((next_seq(), hid, exc_info[1]))
            env.log("onexc_called", hid, type(exc_info[1]).__name__)
        case.addOnException(handler)
    return case


class EqHandler:
    """addOnException handler objects that all compare (and hash) equal, like two instances of a dataclass."""

    def __init__(self, fn):
        self.fn = fn

    def __call__(self, exc_info):
        return self.fn(exc_info)

    def __eq__(self, other):
        return isinstance(other, EqHandler)

    def __hash__(self):
        return 7


def is_decor_skip(program):
    return program.get("decor") in ("skip_method", "skip_class", "skipIf_true", "skipUnless_false",
                                    "stdlib_skip_method")


class Run:
    """One execution of a program against one result object."""

    def __init__(self, program, env, case, result, propagated, returned):
        self.program, self.env, self.case = program, env, case
        self.result, self.propagated, self.returned = result, propagated, returned


def execute(program, make_result=None, runner_factory=None, env=None, case=None,
            pass_none=False, default_result=None):
    """Run ``program`` once.  ``make_result()`` -> result object handed to ``case.run``."""
    if env is None:
        env = Env(program)
    if case is None:
        case = build_case(program, env, runner_factory, default_result)
        if program.get("clone_id"):
            from testtools.testcase import clone_test_with_new_id
            case = clone_test_with_new_id(case, program["clone_id"])
    result = None if pass_none else make_result()
    propagated = None
    returned = None
    try:
        returned = case.run(result)
    except BaseException as e:  # noqa - that is the observation
        propagated = e
    return Run(program, env, case, result, propagated, returned)


# --------------------------------------------------------------------------------------------
# Oracle helpers over an execution log (phrased in the properties' terms).

def expected_outcome(exc, case, env):
    """Outcome the property prescribes for a single exception.

    The handler table is rebuilt from the *statement* (skip, failure, expected failure,
    unexpected success, Exception->error, in that order) plus the user's insertions in the
    order and at the positions they were made; the first isinstance match wins.  Returns None
    when nothing matches (KeyboardInterrupt, SystemExit: reported as error and re-raised).
    """
    from testtools.testcase import _ExpectedFailure, _UnexpectedSuccess
    table = [
        (case.skipException, "addSkip"),
        (case.failureException, "addFailure"),
        (_ExpectedFailure, "addExpectedFailure"),
        (_UnexpectedSuccess, "addUnexpectedSuccess"),
        (Exception, "addError"),
    ]
    for e in env.tags("handler_inserted"):
        exc_name, report, pos = e[2], e[3], e[4]
        table.insert(pos, (CUSTOM[exc_name], REPORT_OUTCOME[report]))
    for exc_class, outcome in table:
        if isinstance(exc, exc_class):
            return outcome
    return None


def flatten_tokens(action):
    """All (kind, tok) a raise/multi action will raise, in order."""
    if action[0] == "multi":
        out = []
        for sub in action[1]:
            out.extend(flatten_tokens(sub))
        return out
    return [(action[1], action[2])]


def runner_factory_for(name):
    """None (plain RunTest) | "sync" | "async" (on a fresh virtual-time reactor)."""
    if name == "sync":
        from testtools.twistedsupport import SynchronousDeferredRunTest
        return SynchronousDeferredRunTest
    if name in ("async", "async_store"):
        # ("async_store": with Twisted's log captured into a 'twisted-log' detail of the runner's own)
        from testtools.twistedsupport import AsynchronousDeferredRunTest
        from . import vreactor
        return AsynchronousDeferredRunTest.make_factory(
            reactor=vreactor.make_reactor(), timeout=30, store_twisted_logs=(name == "async_store"))
    return None
