"""Recording result doubles of every flavour (observation at the client boundary).

Every recorder appends ``Ev(seq, thread, name, test, payload)`` to a shared
``Log``.  Payloads are snapshotted at the moment of the call: detail bytes are
read inside ``addX``, tags are copied, so later mutation cannot repaint history.
The signatures deliberately mirror the flavours that
ExtendedToOriginalDecorator probes for with TypeError / getattr.
"""

import collections
import itertools
import threading

_SEQ = itertools.count()


def next_seq():
    return next(_SEQ)


Ev = collections.namedtuple("Ev", "seq thread name test payload")

OUTCOMES = ("addSuccess", "addFailure", "addError", "addSkip", "addExpectedFailure",
            "addUnexpectedSuccess")


class Log:
    def __init__(self, hook=None):
        self.events = []
        self.hook = hook  # called before recording: hook(name, test) (fault / yield injection)

    def add(self, name, test=None, payload=None):
        if self.hook is not None:
            self.hook(name, test)
        tid = test.id() if hasattr(test, "id") else test
        ev = Ev(next_seq(), threading.get_ident(), name, tid, payload)
        self.events.append(ev)
        return ev

    def names(self):
        return [e.name for e in self.events]

    def of(self, *names):
        return [e for e in self.events if e.name in names]


def snap_details(details):
    """name -> (content-type repr, bytes) read NOW."""
    if details is None:
        return None
    out = {}
    for name, content in details.items():
        try:
            data = b"".join(content.iter_bytes())
            ctype = repr(content.content_type)
        except Exception as e:  # a broken content object is data, not a harness error
            data, ctype = ("<unreadable: %r>" % (e,)).encode(), "?"
        out[name] = (ctype, data)
    return out


def snap_err(err):
    if err is None:
        return None
    try:
        return (err[0].__name__, str(err[1]))
    except Exception:
        return ("?", repr(err))


class Py26Recorder:
    """2.6-style: addError/addFailure/addSuccess/startTest/stopTest/stop."""

    flavour = "py26"

    def __init__(self, log=None):
        self.log = log if log is not None else Log()
        self.shouldStop = False
        self.testsRun = 0
        self._ok = True

    def startTest(self, test):
        self.testsRun += 1
        self.log.add("startTest", test)

    def stopTest(self, test):
        self.log.add("stopTest", test)

    def addSuccess(self, test):
        self.log.add("addSuccess", test)

    def addError(self, test, err):
        self._ok = False
        self.log.add("addError", test, {"err": snap_err(err)})

    def addFailure(self, test, err):
        self._ok = False
        self.log.add("addFailure", test, {"err": snap_err(err)})

    def stop(self):
        self.log.add("stop")
        self.shouldStop = True

    def wasSuccessful(self):
        return self._ok


class Py27Recorder(Py26Recorder):
    flavour = "py27"

    def __init__(self, log=None):
        super().__init__(log)
        self.failfast = False

    def addError(self, test, err):
        super().addError(test, err)
        if self.failfast:
            self.stop()

    def addFailure(self, test, err):
        super().addFailure(test, err)
        if self.failfast:
            self.stop()

    def addSkip(self, test, reason):
        self.log.add("addSkip", test, {"reason": reason})

    def addExpectedFailure(self, test, err):
        self.log.add("addExpectedFailure", test, {"err": snap_err(err)})

    def addUnexpectedSuccess(self, test):
        self._ok = False
        self.log.add("addUnexpectedSuccess", test)
        if self.failfast:
            self.stop()

    def startTestRun(self):
        self.log.add("startTestRun")

    def stopTestRun(self):
        self.log.add("stopTestRun")


class ExtRecorder(Py27Recorder):
    """Extended protocol: details=, tags, time, progress, current_tags."""

    flavour = "ext"

    def __init__(self, log=None):
        super().__init__(log)
        self._run_tags = set()
        self._test_tags = None

    # tags bookkeeping is the recorder's own tiny model (independent of TagContext)
    @property
    def current_tags(self):
        return set(self._run_tags if self._test_tags is None else self._test_tags)

    def _payload(self, err=None, details=None, reason=None):
        return {"err": snap_err(err), "details": snap_details(details), "reason": reason,
                "tags": frozenset(self.current_tags)}

    def startTestRun(self):
        self._run_tags = set()
        self._test_tags = None
        self._ok = True
        self.shouldStop = False  # a fresh run, like testtools' own results
        self.log.add("startTestRun")

    def startTest(self, test):
        self.testsRun += 1
        self._test_tags = set(self._run_tags)
        try:
            hash(test)      # results commonly key their bookkeeping by the test object
        except TypeError:
            self.__dict__.setdefault("unhashable_tests", []).append(repr(test))
        self.log.add("startTest", test)

    def stopTest(self, test):
        self._test_tags = None
        self.log.add("stopTest", test)

    def addSuccess(self, test, details=None):
        self.log.add("addSuccess", test, self._payload(details=details))

    def addError(self, test, err=None, details=None):
        self._ok = False
        self.log.add("addError", test, self._payload(err, details))
        if self.failfast:
            self.stop()

    def addFailure(self, test, err=None, details=None):
        self._ok = False
        self.log.add("addFailure", test, self._payload(err, details))
        if self.failfast:
            self.stop()

    def addSkip(self, test, reason=None, details=None):
        self.log.add("addSkip", test, self._payload(None, details, reason))

    def addExpectedFailure(self, test, err=None, details=None):
        self.log.add("addExpectedFailure", test, self._payload(err, details))

    def addUnexpectedSuccess(self, test, details=None):
        self._ok = False
        self.log.add("addUnexpectedSuccess", test, self._payload(details=details))
        if self.failfast:
            self.stop()

    def tags(self, new_tags, gone_tags):
        # keep the objects that were handed over: they must not change once delivered
        self.__dict__.setdefault("_live_tags", []).append(
            (new_tags, gone_tags, frozenset(new_tags), frozenset(gone_tags)))
        new_tags, gone_tags = set(new_tags), set(gone_tags)
        target = self._run_tags if self._test_tags is None else self._test_tags
        target.update(new_tags)
        target.difference_update(gone_tags)
        self.log.add("tags", None, {"new": frozenset(new_tags), "gone": frozenset(gone_tags)})

    def aliasing_problems(self):
        """tags() argument sets whose content changed after they were delivered."""
        return [(sorted(sn), sorted(n), sorted(sg), sorted(g)) for n, g, sn, sg in self.__dict__.get("_live_tags", [])
                if frozenset(n) != sn or frozenset(g) != sg]

    def time(self, a_datetime):
        self.log.add("time", None, {"time": a_datetime})

    def progress(self, offset, whence):
        self.log.add("progress", None, {"offset": offset, "whence": whence})

    def done(self):
        self.log.add("done")


class TwistedRecorder:
    """Twisted IReporter-like: no shouldStop/stop, addExpectedFailure(test, failure, todo)."""

    flavour = "twisted"

    def __init__(self, log=None):
        self.log = log if log is not None else Log()
        self.testsRun = 0
        self._ok = True

    def startTest(self, test):
        self.testsRun += 1
        self.log.add("startTest", test)

    def stopTest(self, test):
        self.log.add("stopTest", test)

    def addSuccess(self, test):
        self.log.add("addSuccess", test)

    def addError(self, test, error):
        self._ok = False
        self.log.add("addError", test, {"err": snap_err(error)})

    def addFailure(self, test, error):
        self._ok = False
        self.log.add("addFailure", test, {"err": snap_err(error)})

    def addExpectedFailure(self, test, failure, todo=None):
        self.log.add("addExpectedFailure", test, {"err": snap_err(failure), "todo": None if todo is None else repr(todo)})

    def addUnexpectedSuccess(self, test, todo=None):
        # (Twisted's second parameter is its own Todo object: nothing testtools has may land there)
        self.log.add("addUnexpectedSuccess", test, {"todo": None if todo is None else repr(todo)})

    def addSkip(self, test, reason):
        self.log.add("addSkip", test, {"reason": reason})

    def wasSuccessful(self):
        return self._ok

    def done(self):
        self.log.add("done")


def make_real_recorder(base, log=None, *args, **kwargs):
    """Recording subclass of a real testtools result class (real behaviour + log)."""
    log = log if log is not None else Log()

    class Rec(base):
        flavour = "real:" + base.__name__

        def startTestRun(self):
            if getattr(self, "log", None) is not None:
                self.log.add("startTestRun")
            return super().startTestRun()

        def stopTestRun(self):
            self.log.add("stopTestRun")
            return super().stopTestRun()

        def startTest(self, test):
            self.log.add("startTest", test)
            return super().startTest(test)

        def stopTest(self, test):
            self.log.add("stopTest", test)
            return super().stopTest(test)

        def _p(self, err=None, details=None, reason=None):
            return {"err": snap_err(err), "details": snap_details(details), "reason": reason,
                    "tags": frozenset(self.current_tags)}

        def addSuccess(self, test, details=None):
            self.log.add("addSuccess", test, self._p(details=details))
            return super().addSuccess(test, details=details)

        def addError(self, test, err=None, details=None):
            self.log.add("addError", test, self._p(err, details))
            return super().addError(test, err, details=details)

        def addFailure(self, test, err=None, details=None):
            self.log.add("addFailure", test, self._p(err, details))
            return super().addFailure(test, err, details=details)

        def addSkip(self, test, reason=None, details=None):
            self.log.add("addSkip", test, self._p(None, details, reason))
            return super().addSkip(test, reason, details=details)

        def addExpectedFailure(self, test, err=None, details=None):
            self.log.add("addExpectedFailure", test, self._p(err, details))
            return super().addExpectedFailure(test, err, details=details)

        def addUnexpectedSuccess(self, test, details=None):
            self.log.add("addUnexpectedSuccess", test, self._p(details=details))
            return super().addUnexpectedSuccess(test, details=details)

    Rec.__name__ = "Rec" + base.__name__
    r = Rec.__new__(Rec)
    r.log = None
    Rec.__init__(r, *args, **kwargs)
    r.log = log
    return r


STREAM_FIELDS = ("test_id", "test_status", "test_tags", "runnable", "file_name", "file_bytes",
                 "eof", "mime_type", "route_code", "timestamp")


class StreamRecorder:
    """StreamResult sink: copies test_tags on receipt and keeps the received object."""

    flavour = "stream"

    def __init__(self, log=None, name=None):
        self.log = log if log is not None else Log()
        self.name = name
        self.live = []  # (event index, live test_tags object, snapshot)

    def startTestRun(self):
        self.log.add("startTestRun", None, {"sink": self.name})

    def stopTestRun(self):
        self.log.add("stopTestRun", None, {"sink": self.name})

    def status(self, test_id=None, test_status=None, test_tags=None, runnable=True,
               file_name=None, file_bytes=None, eof=False, mime_type=None, route_code=None,
               timestamp=None):
        snap = None if test_tags is None else frozenset(test_tags)
        payload = dict(test_id=test_id, test_status=test_status, test_tags=snap, runnable=runnable,
                       file_name=file_name,
                       file_bytes=None if file_bytes is None else bytes(file_bytes),
                       eof=eof, mime_type=mime_type, route_code=route_code, timestamp=timestamp,
                       sink=self.name)
        ev = self.log.add("status", test_id, payload)
        if test_tags is not None:
            self.live.append((ev.seq, test_tags, snap))

    def aliasing_problems(self):
        return [(seq, snap, set(livetags)) for seq, livetags, snap in self.live
                if frozenset(livetags) != snap]


def outcome_blocks(events):
    """Split a log into per-test brackets: list of (test, [names between start/stop], ok)."""
    blocks, cur = [], None
    stray = []
    for e in events:
        if e.name == "startTest":
            if cur is not None:
                blocks.append((cur[0], cur[1], False))
            cur = (e.test, [])
        elif e.name == "stopTest":
            if cur is None or cur[0] != e.test:
                stray.append(e)
            else:
                blocks.append((cur[0], cur[1], True))
                cur = None
        elif e.name in OUTCOMES:
            if cur is None:
                stray.append(e)
            else:
                cur[1].append(e)
    if cur is not None:
        blocks.append((cur[0], cur[1], False))
    return blocks, stray
