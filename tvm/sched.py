"""Deterministic baton scheduler: real threads, but only the baton holder runs.

Worker code hands the baton back at *yield points*: every operation on a controlled primitive
(CtlSemaphore / CtlQueue / CtlThread) and wherever the harness calls ``yield_point`` (e.g. before
every call on a shared recording result).  Blocking operations register a wake-up predicate; the
scheduler only chooses among enabled tasks; "no enabled task while some are unfinished" is a
detected deadlock (exact, no timeout).

Schedules are lists of choice indices, so every execution is replayable; ``explore_dfs`` enumerates
all schedules up to a preemption bound by stateless re-execution.
"""

import collections
import itertools
import threading


class Deadlock(Exception):
    pass


class SchedAbort(BaseException):
    """Raised inside tasks to unwind them when a run is torn down."""


class Task:
    __slots__ = ("name", "index", "ev", "done", "blocked", "started", "thread", "error")

    def __init__(self, name, index):
        self.name, self.index = name, index
        self.ev = threading.Semaphore(0)
        self.done = False
        self.blocked = None
        self.started = False
        self.thread = None
        self.error = None


class Sched:
    def __init__(self, chooser):
        self.chooser = chooser
        self.tasks = []
        self.cur = None
        self.trace = []       # (task name, label)
        self.choices = []     # (n_enabled, chosen index, index of current task among enabled or None)
        self.deadlock = None
        self.aborting = False
        self._n = itertools.count()

    # -- task management ---------------------------------------------------------------------
    def _new(self, name):
        t = Task(name, next(self._n))
        self.tasks.append(t)
        return t

    def enabled(self):
        return [t for t in self.tasks
                if t.started and not t.done and (t.blocked is None or t.blocked())]

    def _switch(self, me, label):
        """Pick the next task and hand over the baton; returns when ``me`` holds it again."""
        if self.aborting:
            raise SchedAbort()
        en = self.enabled()
        if not en:
            if all(t.done or not t.started for t in self.tasks):
                return
            self.deadlock = [(t.name, "done" if t.done else ("blocked" if t.blocked else "ready"))
                             for t in self.tasks if t.started]
            self._abort()
            raise Deadlock(self.deadlock)
        cur_idx = en.index(me) if me in en else None
        k = self.chooser(len(en), cur_idx, label, [t.name for t in en]) if len(en) > 1 else 0
        self.choices.append((len(en), k, cur_idx))
        nxt = en[k]
        self.trace.append((nxt.name, label))
        if nxt is me:
            return
        self.cur = nxt
        nxt.ev.release()
        if me is not None and not me.done:
            me.ev.acquire()
            if self.aborting:
                raise SchedAbort()

    def _abort(self):
        self.aborting = True
        for t in self.tasks:
            if t.started and not t.done and t is not self.cur:
                t.ev.release()

    # -- API for primitives / harness ---------------------------------------------------------
    def yield_point(self, label):
        self._maybe_interrupt(label)
        self._switch(self.cur, label)

    def _maybe_interrupt(self, label):
        """Interrupt injection: raise ``exc`` in task ``name`` at its n-th yield point."""
        inj = getattr(self, "interrupt", None)
        if inj is None or self.cur is None or self.cur.name != inj["task"]:
            return
        inj["seen"] = inj.get("seen", 0) + 1
        if inj["seen"] == inj["at"]:
            inj["fired"] = label
            if inj.get("on_fire"):
                inj["on_fire"]()
            raise inj["exc"]

    def block_until(self, pred, label):
        self._maybe_interrupt(label)
        me = self.cur
        me.blocked = pred
        try:
            self._switch(me, label)
        finally:
            me.blocked = None

    def current_name(self):
        return self.cur.name if self.cur is not None else "?"

    def spawn(self, name, fn):
        t = self._new(name)

        def body():
            t.ev.acquire()
            if self.aborting:
                t.done = True
                return
            try:
                fn()
            except SchedAbort:
                pass
            except Deadlock:
                pass
            except BaseException as e:  # noqa - recorded, surfaced by the harness
                t.error = e
            finally:
                t.done = True
                if not self.aborting:
                    try:
                        self._switch(t, "exit:" + name)
                    except (Deadlock, SchedAbort):
                        pass
        t.thread = threading.Thread(target=body, daemon=True, name="tvm-" + name)
        return t

    def run(self, fn):
        """Run ``fn`` as task 'main' on the calling thread, then drain the other tasks."""
        self.main = self._new("main")
        self.main.started = True
        self.cur = self.main
        result = exc = None
        try:
            result = fn()
        except (Deadlock, SchedAbort) as e:
            exc = e
        except BaseException as e:  # noqa
            exc = e
        if getattr(self, "interrupt", None) is not None:
            self.interrupt_fired = self.interrupt.get("fired")
            self.interrupt = None
        self.alive_at_return = [t.name for t in self.tasks
                                if t is not self.main and t.started and not t.done]
        if not self.aborting:
            try:
                self.block_until(lambda: all(t.done for t in self.tasks if t is not self.main and t.started),
                                 "drain")
            except (Deadlock, SchedAbort):
                pass
        self.main.done = True
        if self.aborting:
            for t in self.tasks:
                if t.started and not t.done:
                    t.ev.release()
        for t in self.tasks:
            if t.thread is not None and t.started:
                t.thread.join(timeout=5)
        return result, exc

    def leaked_threads(self):
        return [t.name for t in self.tasks if t.thread is not None and t.started and t.thread.is_alive()]


# ---- controlled primitives ----------------------------------------------------------------------

class CtlThread:
    def __init__(self, sched, group=None, target=None, name=None, args=(), kwargs=None, daemon=None):
        self.s = sched
        self.name = "T%d" % len([t for t in sched.tasks if t.name.startswith("T")])
        self._target, self._args, self._kwargs = target, args, kwargs or {}
        self.task = sched.spawn(self.name, self._run)
        self.ran_on = None

    def _run(self):
        self.ran_on = self.s.current_name()
        self._target(*self._args, **self._kwargs)

    def start(self):
        self.task.started = True
        self.task.thread.start()
        self.s.yield_point("start:" + self.name)

    def join(self, timeout=None):
        if not self.task.done:
            self.s.block_until(lambda: self.task.done, "join:" + self.name)

    def is_alive(self):
        return self.task.started and not self.task.done


class CtlSemaphore:
    def __init__(self, sched, value=1):
        self.s = sched
        self.n = value
        self.history = [value]
        self.holder = None

    def acquire(self, blocking=True, timeout=None):
        self.s.yield_point("sem.acquire")
        if self.n == 0:
            if not blocking:
                self.history.append(self.n)
                return False
            self.s.block_until(lambda: self.n > 0, "sem.wait")
        self.n -= 1
        self.holder = self.s.current_name()
        self.history.append(self.n)
        return True

    def release(self):
        self.n += 1
        self.holder = None
        self.history.append(self.n)
        self.s.yield_point("sem.release")

    __enter__ = acquire

    def __exit__(self, *a):
        self.release()


class CtlQueue:
    def __init__(self, sched, maxsize=0):
        self.s = sched
        self.q = collections.deque()
        self.puts = 0

    def put(self, item, block=True, timeout=None):
        self.q.append(item)
        self.puts += 1
        self.s.yield_point("q.put")

    def get(self, block=True, timeout=None):
        self.s.yield_point("q.get")
        if not self.q:
            self.s.block_until(lambda: bool(self.q), "q.wait")
        return self.q.popleft()

    def empty(self):
        return not self.q


class ThreadingShim:
    """Stands in for the ``threading`` module as seen by testtools.testsuite."""

    def __init__(self, sched):
        self._s = sched
        self.semaphores = []
        self.threads = []

    def Thread(self, *a, **kw):
        t = CtlThread(self._s, *a, **kw)
        self.threads.append(t)
        return t

    def Semaphore(self, value=1):
        s = CtlSemaphore(self._s, value)
        self.semaphores.append(s)
        return s

    def current_thread(self):
        return threading.current_thread()

    def get_ident(self):
        return threading.get_ident()


# ---- choosers --------------------------------------------------------------------------------------

def replay_chooser(prefix, default="continue"):
    """Follow ``prefix`` (list of indices), then: keep running the current task if enabled, else the
    first enabled one (no further preemption)."""
    it = iter(prefix)

    def choose(n, cur_idx, label, names):
        try:
            k = next(it)
            return min(k, n - 1)
        except StopIteration:
            return cur_idx if cur_idx is not None else 0
    return choose


def random_chooser(rng, p_switch=0.5):
    def choose(n, cur_idx, label, names):
        if cur_idx is not None and rng.random() > p_switch:
            return cur_idx
        return rng.randrange(n)
    return choose


def pct_chooser(rng, n_tasks_hint=6, depth=2, length_hint=200):
    """PCT-style: random priorities, ``depth`` priority change points."""
    prio = {}
    change = sorted(rng.sample(range(length_hint), min(depth, length_hint)))
    state = {"step": 0, "low": 0}

    def choose(n, cur_idx, label, names):
        state["step"] += 1
        for nm in names:
            if nm not in prio:
                prio[nm] = rng.random() + 1
        k = max(range(n), key=lambda i: prio[names[i]])
        if change and state["step"] >= change[0]:
            change.pop(0)
            state["low"] -= 1
            prio[names[k]] = state["low"]
            k = max(range(n), key=lambda i: prio[names[i]])
        return k
    return choose


def preemptions(choices):
    return sum(1 for n, k, cur in choices if cur is not None and k != cur)


def explore_dfs(run_once, bound, max_runs=100000, should_stop=None):
    """Stateless DFS over schedules with at most ``bound`` preemptions.

    ``run_once(prefix)`` executes one schedule and returns the Sched (its ``choices``).
    Returns (#runs, complete?)."""
    stack = [[]]
    runs = 0
    while stack:
        if runs >= max_runs or (should_stop and should_stop()):
            return runs, False
        prefix = stack.pop()
        s = run_once(prefix)
        runs += 1
        ch = s.choices
        taken = [k for n, k, cur in ch]
        for i in range(len(prefix), len(ch)):
            n, k, cur = ch[i]
            if n <= 1:
                continue
            base_pre = preemptions(ch[:i])
            for alt in range(n):
                if alt == k:
                    continue
                pre = base_pre + (1 if cur is not None and alt != cur else 0)
                if pre <= bound:
                    stack.append(taken[:i] + [alt])
    return runs, True
