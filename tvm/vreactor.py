"""Deterministic virtual-time Twisted reactor for Spinner / AsynchronousDeferredRunTest.

``VReactor`` is ``twisted.internet.task.Clock`` plus the small part of the reactor API that
testtools.twistedsupport uses: run / crash / stop / callWhenRunning / iterate / removeAll /
addReader & friends / running.  ``run()`` repeatedly advances the clock to the next pending
DelayedCall until crashed, so "Deferred fires at t, timeout at T, stop requested at tau" is an
enumerable space.

Fidelity rule learnt from the prototype: ``getDelayedCalls()`` returns a *snapshot* like the real
reactor (task.Clock returns its live list, and Spinner._clean cancelling while iterating over that
would skip every second call - a harness-made false alarm).
"""


def make_reactor():
    from twisted.internet import error, task

    class VReactor(task.Clock):
        def __init__(self):
            super().__init__()
            self.running = False
            self._crashed = False
            self._when_running = []
            self._readers = []
            self._writers = []
            self.log = []
            self.max_advances = 10000

        # -- lifecycle ---------------------------------------------------------------------
        def callWhenRunning(self, f, *a, **kw):
            if self.running:
                f(*a, **kw)
            else:
                self._when_running.append((f, a, kw))

        def run(self, installSignalHandlers=True):
            if self.running:
                raise error.ReactorAlreadyRunning()
            self.running = True
            self._crashed = False
            self.log.append(("run", self.seconds()))
            pending, self._when_running = self._when_running, []
            for f, a, kw in pending:
                f(*a, **kw)
            n = 0
            while not self._crashed:
                calls = self.getDelayedCalls()
                if not calls:
                    # a real reactor would sleep forever: the harness never builds such a case
                    self.running = False
                    raise RuntimeError("virtual reactor would block forever (nothing scheduled)")
                n += 1
                if n > self.max_advances:
                    self.running = False
                    raise RuntimeError("virtual reactor: too many steps")
                nxt = min(c.getTime() for c in calls)
                self.advance(max(0.0, nxt - self.seconds()))
            self.running = False
            self.log.append(("stopped", self.seconds()))

        def crash(self):
            self._crashed = True
            self.running = False

        def stop(self):
            if not self.running:
                raise error.ReactorNotRunning("Can't stop reactor that isn't running.")
            self.crash()

        def iterate(self, delay=0):
            self.advance(delay)

        def advance(self, amount):
            """One reactor pass: like the real reactor's runUntilCurrent, run the calls that are due
            and were already pending when the pass started (calls scheduled during the pass wait for
            the next one, even with delay 0), and log - not raise - what they raise."""
            from twisted.python import log as tlog
            self.rightNow += amount
            self._sortCalls()
            due = [c for c in self.calls if c.getTime() <= self.seconds()]
            for call in due:
                if call not in self.calls:   # cancelled meanwhile
                    continue
                if call.getTime() > self.seconds():  # delayed / reset meanwhile
                    continue
                self.calls.remove(call)
                call.called = 1
                try:
                    call.func(*call.args, **call.kw)
                except BaseException:  # noqa - the real reactor logs and carries on
                    tlog.err()
            # then the I/O half of the iteration: selectables that declare themselves ready (`tvm_readable`) get
            # their doRead() - the only I/O readiness this reactor models
            for r in list(self._readers):
                if getattr(r, "tvm_readable", False) and r in self._readers:
                    try:
                        r.doRead()
                    except BaseException:  # noqa
                        tlog.err()
            self._sortCalls()

        def getDelayedCalls(self):
            return list(super().getDelayedCalls())

        # -- selectables -------------------------------------------------------------------
        def addReader(self, r):
            if r not in self._readers:
                self._readers.append(r)

        def addWriter(self, w):
            if w not in self._writers:
                self._writers.append(w)

        def removeReader(self, r):
            if r in self._readers:
                self._readers.remove(r)

        def removeWriter(self, w):
            if w in self._writers:
                self._writers.remove(w)

        def getReaders(self):
            return list(self._readers)

        def getWriters(self):
            return list(self._writers)

        def removeAll(self):
            out = list(self._readers) + [w for w in self._writers if w not in self._readers]
            self._readers, self._writers = [], []
            return out

    return VReactor()
